// property C19 (artivis/manif): documented API entry instantiated for a group / scalar / operand kind
// group=SE2 (manif::SE2<double>)  scalar=double  operand kind=const Eigen::Map<const G>
// entries: t_Bracket_arg_owning
// replay of a C19 violation: this single-entry program must compile, link and exit with status 0
// compiler: g++ -std=c++11 -O0 -w -I<repo>/include -I<repo>/external/tl -I/usr/include/eigen3
// snippet: CHECK_SAME(TK::Bracket(t, uo), to.bracket(uo));
// observed: /repo/include/manif/impl/tangent_base.h:684:25: error: ‘const _Derived& manif::TangentBase<Derived>::derived() const & [with _Derived = manif::SE2Tangent<double>]’ is protected within this context

#include <manif/manif.h>
#include <cstdio>
#include <cstdlib>
#include <cstring>
#include <sstream>
#include <string>
#include <vector>
#include <list>
#include <exception>
#include <type_traits>

typedef double S;
typedef manif::SE2<S> G;
typedef G::Tangent T;
#define C19_KIND 2   /* 0: owning   1: Eigen::Map<G>   2: const Eigen::Map<const G> */
#define C19_DEFAULT_SEED 1ULL

#if C19_KIND == 0
typedef G GK;
typedef T TK;
#elif C19_KIND == 1
typedef Eigen::Map<G> GK;
typedef Eigen::Map<T> TK;
#else
typedef Eigen::Map<const G> GK;
typedef Eigen::Map<const T> TK;
#endif

namespace c19 {

static const char* g_entry = "?";
static int  g_set = 0;
static long g_checks = 0, g_mismatch = 0;

inline void fail(const char* what, const char* expr, int line)
{
  ++g_mismatch;
  std::printf("%s %s set=%d line=%d %s\n", what, g_entry, g_set, line, expr);
  std::fflush(stdout);
}

// bit-for-bit comparison ------------------------------------------------------------------------
template <class A, class B>
bool same_dense(const Eigen::MatrixBase<A>& a_, const Eigen::MatrixBase<B>& b_)
{
  static_assert(std::is_same<typename A::Scalar, typename B::Scalar>::value, "CHECK_SAME: scalar types differ");
  const typename A::PlainObject a = a_;
  const typename B::PlainObject b = b_;
  if (a.rows() != b.rows() || a.cols() != b.cols()) return false;
  for (int j = 0; j < a.cols(); ++j)
    for (int i = 0; i < a.rows(); ++i) {
      const typename A::Scalar x = a(i, j), y = b(i, j);
      if (std::memcmp(&x, &y, sizeof(x)) != 0) return false;
    }
  return true;
}
template <class A, class B>
bool same(const manif::LieGroupBase<A>& a, const manif::LieGroupBase<B>& b) { return same_dense(a.coeffs(), b.coeffs()); }
template <class A, class B>
bool same(const manif::TangentBase<A>& a, const manif::TangentBase<B>& b) { return same_dense(a.coeffs(), b.coeffs()); }
template <class A, class B>
bool same(const Eigen::MatrixBase<A>& a, const Eigen::MatrixBase<B>& b) { return same_dense(a, b); }
template <class A, class B>
bool same(const Eigen::QuaternionBase<A>& a, const Eigen::QuaternionBase<B>& b) { return same_dense(a.coeffs(), b.coeffs()); }
template <class Sc, int D, int M, int O>
bool same(const Eigen::Transform<Sc, D, M, O>& a, const Eigen::Transform<Sc, D, M, O>& b) { return same_dense(a.matrix(), b.matrix()); }
template <class A>
typename std::enable_if<std::is_arithmetic<A>::value, bool>::type
same(const A& a, const A& b) { return std::memcmp(&a, &b, sizeof(A)) == 0; }
template <class A, class AA, class B, class BA>
bool same(const std::vector<A, AA>& a, const std::vector<B, BA>& b)
{
  if (a.size() != b.size()) return false;
  for (std::size_t i = 0; i < a.size(); ++i) if (!same(a[i], b[i])) return false;
  return true;
}

#define CHECK_SAME(a, b) do { ++c19::g_checks; if (!c19::same((a), (b))) c19::fail("MISMATCH", #a " != " #b, __LINE__); } while (0)
#define CHECK_TRUE(c)    do { ++c19::g_checks; if (!(c)) c19::fail("MISMATCH", "!(" #c ")", __LINE__); } while (0)

// generic client code, as in docs/pages/cpp/Writing-generic-code.md ---------------------------------
template <typename DerivedA, typename DerivedB>
typename DerivedA::Scalar
generic_ominus_norm(const manif::LieGroupBase<DerivedA>& state, const manif::LieGroupBase<DerivedB>& state_other)
{
  return (state - state_other).squaredWeightedNorm();
}
template <typename Derived>
std::string generic_print(const manif::LieGroupBase<Derived>& g)
{
  std::ostringstream os;
  os << "Degrees of freedom: " << int(manif::LieGroupBase<Derived>::DoF) << "\n"
     << "Underlying representation vector size: " << int(manif::LieGroupBase<Derived>::RepSize) << "\n"
     << "Current values: " << g << "\n";
  return os.str();
}

// deterministic inputs ---------------------------------------------------------------------------
struct Lcg {
  unsigned long long s;
  double next() {   // uniform in (-1, 1)
    s = s * 6364136223846793005ULL + 1442695040888963407ULL;
    return (double(s >> 11) * (1.0 / 9007199254740992.0)) * 2.0 - 1.0;
  }
};
struct Inputs {
  T a, b, t, u;
  G X, Y;
  G::Vector v;
  T::DataType tv;
  S s;
};
static Inputs g_in;

template <class V> void fill(Lcg& g, V& x) { for (int i = 0; i < int(x.size()); ++i) x[i] = S(g.next()); }

static void make_inputs(unsigned long long seed, int set)
{
  Lcg g; g.s = seed * 0x9E3779B97F4A7C15ULL + 0x632BE59BD9B4E019ULL * (unsigned long long)(set + 1);
  for (int i = 0; i < 4; ++i) g.next();
  T::DataType d;
  fill(g, d); g_in.a = T(d);
  fill(g, d); g_in.b = T(d);
  fill(g, d); g_in.t = T(d);
  fill(g, d); g_in.u = T(d);
  g_in.X = g_in.a.exp();
  g_in.Y = g_in.b.exp();
  fill(g, g_in.v);
  fill(g, g_in.tv);
  g_in.s = S(0.25 + 0.375 * (g.next() + 1.0));
}

// operands of one entry: X Y t u are of the operand kind under test, Xo Yo to uo owning copies -------------------
template <class V> S* load(S* buf, const V& x) { for (int i = 0; i < int(x.size()); ++i) buf[i] = x[i]; return buf; }

struct Operands {
  G Xo, Yo; T to, uo;
  G::Jacobian J1, J2, J3, J4;
  Eigen::Matrix<S, G::Dim, G::DoF> JA1, JA2;
  Eigen::Matrix<S, G::Dim, G::Dim> JV1, JV2;
  G::Vector v; T::DataType tv; const S s; const S eps;
  S bufG[G::RepSize], bufT[T::RepSize], bX_[G::RepSize], bY_[G::RepSize], bt_[T::RepSize], bu_[T::RepSize];
#if C19_KIND == 0
  G X, Y; T t, u;
#elif C19_KIND == 1
  Eigen::Map<G> X, Y; Eigen::Map<T> t, u;
#else
  const Eigen::Map<const G> X, Y; const Eigen::Map<const T> t, u;
#endif
  Operands()
    : Xo(g_in.X), Yo(g_in.Y), to(g_in.t), uo(g_in.u), v(g_in.v), tv(g_in.tv), s(g_in.s), eps(S(1e-4)),
#if C19_KIND == 0
      X(Xo), Y(Yo), t(to), u(uo)
#else
      X(load(bX_, Xo.coeffs())), Y(load(bY_, Yo.coeffs())), t(load(bt_, to.coeffs())), u(load(bu_, uo.coeffs()))
#endif
  {
    load(bufG, Yo.coeffs()); load(bufT, uo.coeffs());
    J1.setConstant(S(1)); J2.setConstant(S(2)); J3.setConstant(S(3)); J4.setConstant(S(4));
    JA1.setConstant(S(1)); JA2.setConstant(S(2)); JV1.setConstant(S(1)); JV2.setConstant(S(2));
  }
};

} // namespace c19

// every entry is a member function of Cells: the operands above are visible under their plain names
struct Cells : c19::Operands {
// ---- t_Bracket_arg_owning  [tangent; documented in tangent_base.h]
void e_0()
{ CHECK_SAME(TK::Bracket(t, uo), to.bracket(uo)); }
};
struct Entry { const char* name; void (Cells::*fn)(); };
static const Entry k_entries[] = {
  {"t_Bracket_arg_owning", &Cells::e_0},
};

int main(int argc, char** argv)
{
  std::setvbuf(stdout, 0, _IOLBF, 1 << 12);
  const unsigned long long seed = argc > 1 ? std::strtoull(argv[1], 0, 10) : C19_DEFAULT_SEED;
  const int only = argc > 2 ? std::atoi(argv[2]) : -1;
  const int n = int(sizeof(k_entries) / sizeof(k_entries[0]));
  long executed = 0, exceptions = 0;
  for (int set = 0; set < 3; ++set) {
    for (int i = 0; i < n; ++i) {
      if (only >= 0 && only != i) continue;
      c19::make_inputs(seed, set);
      c19::g_set = set;
      c19::g_entry = k_entries[i].name;
      try {
        Cells c;
        (c.*k_entries[i].fn)();
        ++executed;
      } catch (const std::exception& e) {
        ++exceptions;
        std::printf("EXCEPTION %s set=%d %s\n", k_entries[i].name, set, e.what());
      } catch (...) {
        ++exceptions;
        std::printf("EXCEPTION %s set=%d (unknown)\n", k_entries[i].name, set);
      }
    }
  }
  std::printf("C19-DONE entries=%d executed=%ld checks=%ld mismatches=%ld exceptions=%ld\n",
              n, executed, c19::g_checks, c19::g_mismatch, exceptions);
  return (c19::g_mismatch || exceptions) ? 1 : 0;
}

