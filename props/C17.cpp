// C17 -- De Casteljau curve fitting terminates, stays in bounds and interpolates.
// Built with AddressSanitizer: the trajectory is an exact-size heap vector, so reading anything but its
// elements is reported; ASAN_OPTIONS=hard_rss_limit_mb (set by the driver) bounds runaway allocation.
#include "vf_manif.h"
#include <vector>

using namespace vf;
using namespace vfcfg;

VF_STD_PROPERTY("C17", "number of windows >= 2 and degree >= 3; distinct = distinct (N, degree, k, closed, trajectory bits); a sweep case enumerates every cell of the box 3<=N<=16, 2<=d<=N, 1<=k<=4, closed in {0,1}")

namespace vfp {

static const int R = GroupT::RepSize, D = GroupT::DoF;
static const int kMaxN = 16;

vf::Shape shape() {
  Shape sh;
  sh.n_elems = 1;
  sh.n_tangents = kMaxN - 1;   // P_{i+1} = P_i (+) d_i : consecutive relative rotation < pi
  sh.tp = TP_INJ;
  sh.ep = EP_MODERATE;
  sh.ints = {{0, kMaxN}, {0, 40}, {0, 4}, {0, 1}, {0, 23}};   // N, degree selector, k, closed, mode (0 = sweep the whole box)
  sh.is_float = kIsFloat;
  return sh;
}

template <class F> static int throws(F f) {
  try { f(); } catch (const std::exception&) { return 1; } catch (...) { return 2; }
  return 0;
}

struct Cell { int N, d, k; bool closed; };

static void check_cell(Chk& k, const Spec& s, const std::vector<GroupT>& all, const Cell& c, long& cells, long& nontriv) {
  const std::string id = "N=" + std::to_string(c.N) + ",d=" + std::to_string(c.d) + ",k=" + std::to_string(c.k) + (c.closed ? ",closed" : ",open");
  // exact-size copy: any access beyond it is a heap-buffer-overflow under ASan
  std::vector<GroupT> traj(all.begin(), all.begin() + c.N);
  traj.shrink_to_fit();
  const bool valid = c.N >= 3 && c.d >= 2 && c.d <= c.N && c.k >= 1;
  if (!valid) {
    if (c.d < 2) return;   // degree below 2 is outside the documented domain: nothing is claimed
    const int th = throws([&] { auto r = manif::decasteljau(traj, (unsigned)c.d, (unsigned)c.k, c.closed); (void)r; });
    k.require("invalid arguments raise", th == 1, id + ": " + (th == 0 ? "no exception" : "non-std exception"));
    ++cells;
    return;
  }
  std::vector<GroupT> curve;
  try {
    curve = manif::decasteljau(traj, (unsigned)c.d, (unsigned)c.k, c.closed);
  } catch (const std::exception& e) {
    k.require("valid arguments accepted", false, id + ": exception: " + e.what());
    return;
  }
  ++cells;
  const int W = (c.N - 1) / (c.d - 1);
  const int left_over = c.N - 1 - W * (c.d - 1);
  const int kp = (c.d == 2) ? c.k : c.k * c.d;
  const int Wt = W + (c.closed ? 1 : 0);
  if (W >= 2 && c.d >= 3) ++nontriv;
  if (!k.require("size", (long)curve.size() == (long)Wt * kp, id + ": returned " + std::to_string(curve.size()) + " points, expected " + std::to_string(Wt) + " windows x " + std::to_string(kp))) return;
  k.require("unused trailing points < d-1", left_over < c.d - 1, id);
  // rounding scale: coordinates of the trajectory
  LD smax = 1;
  for (auto& g : traj) for (LD x : ref_lin_scale_c(s, toVL(g.coeffs()))) smax = std::max(smax, x);
  const std::vector<LD> S = {smax * smax};
  for (int w = 0; w < Wt; ++w) {
    // last control point of the window
    int last_idx;
    if (w < W) last_idx = (w + 1) * (c.d - 1);
    else last_idx = c.d - left_over - 2;   // wrap window: left-over points, then points from the start
    const GroupT& end = curve[(size_t)(w + 1) * kp - 1];
    k.require("curve point valid", all_finite(end.coeffs()), id + ": non-finite curve point");
    const LD err = ref_group_err(s, ref_mat(s, toVL(end.coeffs())), ref_mat(s, toVL(traj[last_idx].coeffs())), S);
    k.expect("window ends at its last control point", (double)err, kValTol * c.d, id + ": window " + std::to_string(w) + " does not end at control point " + std::to_string(last_idx));
  }
  if (c.d == 2) {
    // piecewise geodesic through the trajectory
    for (int w = 0; w < Wt; ++w) {
      const int a = (w < W) ? w : c.N - 1, b = (w < W) ? w + 1 : 0;
      // the long-double matrix exponential of a tangent with a linear part ~1e6 carries u_LD*1e6 into the rotation
      // block: any error above a tenth of the tolerance is re-evaluated with the 50-digit oracle before it counts
      auto geodesic = [&](Prec pr, int i, LD& err) {
        const MatL MA = ref_mat(s, toVL(traj[a].coeffs()), pr), MB = ref_mat(s, toVL(traj[b].coeffs()), pr);
        VecL dlog;
        if (!ref_log(s, MatL(ref_inv(s, MA, pr) * MB), dlog, pr)) return 0;
        // the closing segment may have a relative rotation beyond pi - 1e-6: the geodesic is then not unique
        if (tan_theta_max(s, dlog) > M_PI - 1e-6) return 2;
        const MatL want = MA * ref_exp(s, VecL(dlog * ((LD)i / (LD)c.k)), pr);
        err = ref_group_err(s, ref_mat(s, toVL(curve[(size_t)w * kp + i - 1].coeffs()), pr), want, S);
        return 1;
      };
      for (int i = 1; i <= c.k; ++i) {
        LD err = 0;
        int st = geodesic(P_LD, i, err);
        if (st == 2) break;
        if (st == 0 || err > 0.1 * kValTol) { st = geodesic(P_MP, i, err); k.o.confirmed_mp = 1; }
        if (st == 0) { k.label("geodesic oracle inconclusive"); break; }
        if (st == 2) break;
        k.expect("degree 2 = piecewise geodesic", (double)err, kValTol, id + ": point " + std::to_string(i) + " of window " + std::to_string(w) + " is not on the geodesic");
      }
    }
  }
}

vf::Outcome run_case(const vf::Case& c, const vf::RunCtx& ctx) {
  const Spec s = spec();
  Chk k(ctx);
  long cells = 0, nontriv = 0;
  try {
    std::vector<GroupT> all;
    all.push_back(make_elem<GroupT>(c.reals.data()));
    for (int i = 0; i + 1 < kMaxN; ++i) all.push_back(all.back().rplus(make_tan<GroupT>(c.reals.data() + R + i * D)));
    int mode = (int)c.ints[4];
    if (ctx.fuzz && mode == 0) mode = 2;   // single cells only under libFuzzer (short executions)
    if (mode == 0) {
      // a sweep stops at its first failing cell (the failure is already recorded; shrinking re-runs the case hundreds of times)
      for (int N = 3; N <= kMaxN && k.o.st != Outcome::FAIL; ++N) for (int d = 2; d <= N && k.o.st != Outcome::FAIL; ++d) for (int kk = 1; kk <= 4; ++kk) for (int cl = 0; cl < 2; ++cl)
        check_cell(k, s, all, Cell{N, d, kk, cl != 0}, cells, nontriv);
      // the three invalid-argument classes
      check_cell(k, s, all, Cell{2, 2, 1, false}, cells, nontriv);
      check_cell(k, s, all, Cell{1, 1, 1, false}, cells, nontriv);
      check_cell(k, s, all, Cell{5, 6, 1, false}, cells, nontriv);
      check_cell(k, s, all, Cell{5, 3, 0, true}, cells, nontriv);
      k.label("sweep of the whole box (952 cells)");
    } else {
      const int N = (int)c.ints[0];
      int d;
      if (mode == 1) d = N + 1 + (int)c.ints[1] % 3;           // degree above N
      else d = (N >= 2) ? 2 + (int)c.ints[1] % std::max(1, N - 1) : 2;
      check_cell(k, s, all, Cell{N, d, (int)c.ints[2], c.ints[3] != 0}, cells, nontriv);
      k.label(N < 3 ? "N<3" : (d > N ? "d>N" : (c.ints[2] == 0 ? "k=0" : "valid cell")));
    }
  } catch (const std::exception& e) {
    k.require("nothrow", false, std::string("unexpected exception: ") + e.what());
  }
  k.o.nontrivial = nontriv > 0;
  k.label("cells=" + std::string(cells >= 900 ? ">=900" : (cells >= 1 ? "1" : "0")));
  return k.o;
}

}  // namespace vfp
