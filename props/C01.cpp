// C01 -- compose, inverse, identity and act realise the matrix group (floating scalars).
#include "vf_manif.h"

using namespace vf;
using namespace vfcfg;

VF_STD_PROPERTY("C01", "no operand is the identity, rotation angle > 1e-3 in X and Y (when the group has a rotation) and some linear component != 0 (when it has one); distinct = distinct input bit patterns")

namespace vfp {

vf::Shape shape() {
  Shape sh;
  sh.n_elems = 3;
  sh.n_points = 1;
  sh.ep = EP_ALL;
  sh.scalars = {SK_UNIT, SK_UNIT, SK_UNIT};   // where inside the acceptance band the rotation data of X, Y, Z sits
  sh.ints = {{0, 2}};                          // 0: unit to rounding; 1, 2: anywhere within +-0.9 of the acceptance threshold
  sh.is_float = kIsFloat;
  return sh;
}

// 1 + max |entry| over the non-rotation part of each element block of a (product of abs) matrix
static std::vector<LD> lin_scale_of(const Spec& s, const MatL& A) {
  std::vector<LD> r;
  for (size_t b = 0; b < s.e.size(); ++b) {
    const Elem& e = s.e[b];
    int o = s.msz_off((int)b), n = e.msz();
    int rd = (e.k == K_RN) ? 0 : e.dim();
    LD m = 0;
    for (int i = 0; i < n; ++i) for (int j = 0; j < n; ++j) if (!(i < rd && j < rd)) m = std::max(m, fabsl(A(o + i, o + j)));
    r.push_back(1 + m);
  }
  return r;
}

template <class G> static MatL mat_of(const Spec& s, const G& X, Prec prec) { return ref_mat(s, toVL(X.coeffs()), prec); }

static void check(Chk& k, const Spec& s, const Case& c, Prec prec) {
  const int R = s.rep();
  const double* p = c.reals.data();
  // "valid" means accepted by the library: |norm - 1| < eps, not only unit to rounding
  auto make = [&](int idx) {
    typename GroupT::DataType d;
    for (int i = 0; i < R; ++i) d(i) = (Scalar)p[idx * R + i];
    if (c.ints[0] != 0) {
      const LD f = 1.0L + 0.9L * (LD)manif::Constants<Scalar>::eps * (2 * (LD)c.reals[3 * R + GroupT::Dim + idx] - 1);
      for (size_t b = 0; b < s.e.size(); ++b) {
        const Elem& e = s.e[b];
        if (e.k == K_RN) continue;
        for (int i = 0; i < e.nrot(); ++i) { Scalar& v = d(s.rep_off((int)b) + e.rot0() + i); v = (Scalar)((LD)v * f); }
      }
    }
    return GroupT(d);
  };
  const GroupT X = make(0), Y = make(1), Z = make(2);
  const typename GroupT::Vector pt = make_pt<GroupT>(p + 3 * R);
  const MatL MX = mat_of(s, X, prec), MY = mat_of(s, Y, prec), MZ = mat_of(s, Z, prec);
  const MatL aX = MX.cwiseAbs(), aY = MY.cwiseAbs(), aZ = MZ.cwiseAbs();
  const double tol = kValTol;

  // compose
  const GroupT XY = X.compose(Y);
  const MatL MXY = mat_of(s, XY, prec);
  k.expect("compose", (double)ref_group_err(s, MXY, MatL(MX * MY), lin_scale_of(s, MatL(aX * aY))), tol, "Mat(X.compose(Y)) != Mat(X)*Mat(Y)");
  k.bound("compose.unit", (double)rot_norm_dev(s, toVL(XY.coeffs())), (double)manif::Constants<Scalar>::eps, "rotation part of X*Y not unit");
  {
    const GroupT XY2 = X * Y;
    k.require("operator*==compose", (XY2.coeffs().array() == XY.coeffs().array()).all(), "X*Y differs from X.compose(Y)");
  }
  {
    // the same object on both sides, and the in-place forms
    GroupT W = X; W *= W;
    const std::vector<LD> S2 = lin_scale_of(s, MatL(aX * aX));
    k.expect("X*=X", (double)ref_group_err(s, mat_of(s, W, prec), MatL(MX * MX), S2), tol, "X *= X != Mat(X)*Mat(X)");
    k.expect("X.compose(X)", (double)ref_group_err(s, mat_of(s, X.compose(X), prec), MatL(MX * MX), S2), tol, "X.compose(X) != Mat(X)*Mat(X)");
    GroupT V = X; V *= Y;
    k.require("X*=Y == X*Y", (V.coeffs().array() == XY.coeffs().array()).all(), "X *= Y differs from X.compose(Y)");
  }
  // inverse
  const GroupT Xi = X.inverse();
  const MatL MXi = mat_of(s, Xi, prec);
  const MatL I = MatL::Identity(s.msz(), s.msz());
  const std::vector<LD> SX = ref_lin_scale_c(s, toVL(X.coeffs()));
  k.expect("inverse", (double)ref_group_err(s, MXi, ref_inv(s, MX, prec), SX), tol, "Mat(X.inverse()) != Mat(X)^-1");
  k.expect("inverse.left", (double)ref_group_err(s, MatL(MXi * MX), I, lin_scale_of(s, MatL(MXi.cwiseAbs() * aX))), tol, "Mat(X^-1)*Mat(X) != I");
  k.expect("inverse.right", (double)ref_group_err(s, MatL(MX * MXi), I, lin_scale_of(s, MatL(aX * MXi.cwiseAbs()))), tol, "Mat(X)*Mat(X^-1) != I");
  // two-sided inverse / neutrality / associativity on manif's own values
  {
    const std::vector<LD> Sp = lin_scale_of(s, MatL(aX * MXi.cwiseAbs()));
    k.expect("X*X^-1=I", (double)ref_group_err(s, mat_of(s, X * Xi, prec), I, Sp), tol, "X*X^-1 != Identity");
    k.expect("X^-1*X=I", (double)ref_group_err(s, mat_of(s, Xi * X, prec), I, lin_scale_of(s, MatL(MXi.cwiseAbs() * aX))), tol, "X^-1*X != Identity");
    const GroupT Id = GroupT::Identity();
    k.require("Identity=I", (mat_of(s, Id, prec) - I).cwiseAbs().maxCoeff() == 0, "Mat(Identity()) is not the identity matrix");
    k.expect("X*I=X", (double)ref_group_err(s, mat_of(s, X * Id, prec), MX, SX), 8 * kU, "X*Identity != X");
    k.expect("I*X=X", (double)ref_group_err(s, mat_of(s, Id * X, prec), MX, SX), 8 * kU, "Identity*X != X");
    const std::vector<LD> S3 = lin_scale_of(s, MatL(aX * aY * aZ));
    k.expect("assoc", (double)ref_group_err(s, mat_of(s, (X * Y) * Z, prec), mat_of(s, X * (Y * Z), prec), S3), tol, "(X*Y)*Z != X*(Y*Z)");
    k.expect("assoc.ref", (double)ref_group_err(s, mat_of(s, (X * Y) * Z, prec), MatL(MX * MY * MZ), S3), tol, "(X*Y)*Z != Mat(X)Mat(Y)Mat(Z)");
  }
  // act
  {
    const VecL pv = toVL(pt);
    const VecL got = toVL(X.act(pt));
    const VecL ph = ref_embed(s, pv);
    const VecL want = ref_unembed(s, VecL(MX * ph));
    const VecL sc = aX * ph.cwiseAbs();
    LD worst = 0;
    for (size_t b = 0; b < s.e.size(); ++b) {
      LD m = 1;
      for (int i = 0; i < s.e[b].dim(); ++i) m = std::max(m, sc(s.msz_off((int)b) + i));
      for (int i = 0; i < s.e[b].dim(); ++i) {
        LD d = fabsl(got(s.dim_off((int)b) + i) - want(s.dim_off((int)b) + i)) / m;
        if (!(d == d)) d = INFINITY;
        worst = std::max(worst, d);
      }
    }
    k.expect("act", (double)worst, tol, "X.act(p) != Mat(X)*(p;1)");
  }
  // coefficient vector -> matrix conversions offered by the library
#ifndef VF_NO_TRANSFORM
  {
    const MatL T = toML(X.transform());
    const MatL want = MX;   // homogeneous size == manif's transform size for every group
    if (T.rows() == want.rows())
      k.expect("transform", (double)ref_group_err(s, T, want, SX), tol, "X.transform() != Mat(X)");
    else
      k.require("transform.size", false, "X.transform() has size " + std::to_string(T.rows()) + ", homogeneous matrix has " + std::to_string(want.rows()));
  }
#endif
}

vf::Outcome run_case(const vf::Case& c, const vf::RunCtx& ctx) {
  const Spec s = spec();
  Chk k(ctx);
  try {
    check(k, s, c, P_LD);
    if (k.suspicious(0.1)) { Chk k2(ctx); check(k2, s, c, P_MP); k2.o.confirmed_mp = 1; k = k2; }
  } catch (const std::exception& e) {
    k.require("nothrow", false, std::string("exception: ") + e.what());
  }
  const int R = s.rep();
  const VecL xc = vecL(c.reals.data(), R), yc = vecL(c.reals.data() + R, R);
  std::vector<LD> ax = ref_angles_of_coeffs(s, xc), ay = ref_angles_of_coeffs(s, yc);
  LD amin = INFINITY;
  for (LD a : ax) amin = std::min(amin, a);
  for (LD a : ay) amin = std::min(amin, a);
  bool has_lin = false;
  for (auto& e : s.e) if (e.rep() > e.nrot() || e.k == K_RN) has_lin = true;
  const LD lx = coeff_lin_max(s, xc), ly = coeff_lin_max(s, yc);
  k.o.nontrivial = (!s.has_rotation() || amin > 1e-3) && (!has_lin || (lx != 0 && ly != 0));
  if (coeff_w_min(s, xc) < 0 || coeff_w_min(s, yc) < 0) k.label("w<0 operand");
  k.label(std::string("X:") + mag_decade((double)lx));
  k.label(std::string("Y:") + mag_decade((double)ly));
  k.label(c.ints[0] ? "operands anywhere in the acceptance band" : "operands unit to rounding");
  if (s.has_rotation()) k.label(amin > M_PI - 1e-3 ? "min angle near pi" : (amin < 1e-6 ? "min angle < 1e-6" : "min angle generic"));
  return k.o;
}

}  // namespace vfp
