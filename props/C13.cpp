// C13 -- construction, accessors and conversions are consistent and validated.
// Built twice by the driver: with assertions (default) and with -DNDEBUG (tag -ndebug).
#include "vf_manif.h"
#include <complex>
#include <cstring>

using namespace vf;
using namespace vfcfg;

VF_STD_PROPERTY("C13", "argument outside the principal range, or gimbal configuration, or w<0, or norm deviation within a factor 2 of the acceptance threshold; distinct = distinct input bit patterns")

namespace vfp {

static const int R = GroupT::RepSize, N = GroupT::Dim;
#ifdef NDEBUG
static const bool kAsserts = false;
#else
static const bool kAsserts = true;
#endif

vf::Shape shape() {
  Shape sh;
  sh.n_elems = 1;
  sh.ep = EP_ALL;
  sh.scalars = {SK_ANGLE, SK_ANGLE, SK_ANGLE, SK_SIGNED_MAG, SK_SIGNED_MAG, SK_SIGNED_MAG, SK_SIGNED_MAG, SK_SIGNED_MAG, SK_SIGNED_MAG, SK_SIGNED_MAG};
  sh.ints = {{0, 8}, {0, 1}, {0, 2}, {0, 40}};   // norm deviation selector, sign of the deviation, gimbal forcing, scale selector for normalize()
  sh.is_float = kIsFloat;
  return sh;
}

static const double kDelta[9] = {0, 0.1, 0.5, 0.9, 1.1, 2, 10, 1e3, 1e12};

template <class G> struct K { static const int v = -1; };
template <class S> struct K<manif::SO2<S>> { static const int v = K_SO2; };
template <class S> struct K<manif::SE2<S>> { static const int v = K_SE2; };
template <class S> struct K<manif::SO3<S>> { static const int v = K_SO3; };
template <class S> struct K<manif::SE3<S>> { static const int v = K_SE3; };
template <class S> struct K<manif::SE_2_3<S>> { static const int v = K_SE23; };
template <class S> struct K<manif::SGal3<S>> { static const int v = K_SGAL3; };
template <class S, unsigned int M> struct K<manif::Rn<S, M>> { static const int v = K_RN; };

using V3 = Eigen::Matrix<Scalar, 3, 1>;
using M3L = Eigen::Matrix<LD, 3, 3>;

static M3L rpy_ref(LD roll, LD pitch, LD yaw) {
  M3L Rx, Ry, Rz;
  Rx << 1, 0, 0, 0, cosl(roll), -sinl(roll), 0, sinl(roll), cosl(roll);
  Ry << cosl(pitch), 0, sinl(pitch), 0, 1, 0, -sinl(pitch), 0, cosl(pitch);
  Rz << cosl(yaw), -sinl(yaw), 0, sinl(yaw), cosl(yaw), 0, 0, 0, 1;
  return Rz * Ry * Rx;
}
template <class M> static double rot_err(const M& Rm, const M3L& want) {
  double w = 0;
  for (int i = 0; i < 3; ++i) for (int j = 0; j < 3; ++j) { double d = std::fabs((double)((LD)Rm(i, j) - want(i, j))); if (!(d == d)) d = INFINITY; w = std::max(w, d); }
  return w;
}
template <class M> static double ortho_err(const M& Rm) {
  const int n = (int)Rm.rows();
  MatL A = toML(Rm);
  MatL E = A.transpose() * A - MatL::Identity(n, n);
  LD det = A.determinant();
  LD w = std::max(maxabs(E), fabsl(det - 1));
  return (w == w) ? (double)w : INFINITY;
}
template <class A, class B> static bool bits_eq(const A& a, const B& b) {
  if (a.size() != b.size()) return false;
  for (int i = 0; i < a.size(); ++i) { Scalar x = a(i), y = b(i); if (std::memcmp(&x, &y, sizeof(Scalar)) != 0) return false; }
  return true;
}
template <class A, class B> static double maxdiff(const A& a, const B& b) {
  double w = 0;
  for (int i = 0; i < a.rows(); ++i) for (int j = 0; j < a.cols(); ++j) { double d = std::fabs((double)a(i, j) - (double)b(i, j)); if (!(d == d)) d = INFINITY; w = std::max(w, d); }
  return w;
}

// does constructing via f throw invalid_argument / something else / nothing?
template <class F> static int throws(F f) {
  try { f(); } catch (const manif::invalid_argument&) { return 1; } catch (...) { return 2; }
  return 0;
}
template <class F> static void expect_validation(Chk& k, const std::string& name, double delta_over_eps, F f) {
  const int t = throws(f);
  if (!kAsserts) { k.require("ndebug.nothrow:" + name, t == 0, name + ": threw although NDEBUG is defined"); return; }
  if (delta_over_eps <= 0.9) k.require("accept:" + name, t == 0, name + ": rotation data within the acceptance threshold was rejected");
  else k.require("reject:" + name, t == 1, name + ": non-unit rotation data " + (t == 0 ? "was accepted" : "raised something other than invalid_argument"));
}

// ---------- per-group construction checks
template <class G> static void group_specific(Chk& k, const Spec& s, const Case& c, const G& X) {
  const size_t so = R;   // scalars start after the element
  const Scalar a0 = (Scalar)c.reals[so], a1 = (Scalar)c.reals[so + 1], a2 = (Scalar)c.reals[so + 2];
  const Scalar x = (Scalar)c.reals[so + 3], y = (Scalar)c.reals[so + 4], z = (Scalar)c.reals[so + 5];
  const Scalar vx = (Scalar)c.reals[so + 6], vy = (Scalar)c.reals[so + 7], vz = (Scalar)c.reals[so + 8], tt = (Scalar)c.reals[so + 9];
  const double tol = kValTol;
  const int gimbal = (int)c.ints[2];
  constexpr int kind = K<G>::v;
  const double eps = (double)manif::Constants<Scalar>::eps;
  const double dsel = kDelta[c.ints[0]];
  const LD scale_off = 1.0L + (LD)dsel * (LD)eps * ((c.ints[1]) ? -1 : 1);

  if constexpr (kind == K_SO2 || kind == K_SE2) {
    // angle constructor: real/imag are cos/sin of the angle, angle() agrees modulo 2 pi
    const LD cr = cosl((LD)a0), sr = sinl((LD)a0);
    G A = [&] { if constexpr (kind == K_SO2) return G(a0); else return G(x, y, a0); }();
    k.expect("angle ctor: real", std::fabs((double)((LD)A.real() - cr)), tol * (1 + std::fabs((double)a0)), "real() != cos(angle)");
    k.expect("angle ctor: imag", std::fabs((double)((LD)A.imag() - sr)), tol * (1 + std::fabs((double)a0)), "imag() != sin(angle)");
    {
      const LD d = remainderl((LD)A.angle() - (LD)a0, 2 * 3.14159265358979323846264338327950288L);
      // atan2 is ill-conditioned only in absolute terms u; the stored cos/sin carry u*|angle| of argument error
      k.expect("angle() = angle mod 2pi", std::fabs((double)d), tol * (1 + std::fabs((double)a0)), "angle() differs from the constructor angle modulo 2 pi");
      k.bound("angle() in (-pi,pi]", std::fabs((double)A.angle()), M_PI * (1 + 4 * kU), "angle() outside (-pi, pi]");
    }
    k.expect("rotation orthonormal", ortho_err(A.rotation()), tol, "rotation() not orthonormal with det +1");
    // complex-number constructors return the supplied values
    const Scalar re = X.real(), im = X.imag();
    if constexpr (kind == K_SO2) {
      G B(re, im);
      k.require("SO2(real,imag)", B.real() == re && B.imag() == im, "real()/imag() differ from the constructor arguments");
      k.require("rotation=[re -im; im re]", B.rotation()(0, 0) == re && B.rotation()(0, 1) == -im && B.rotation()(1, 0) == im && B.rotation()(1, 1) == re, "rotation() is not built from real/imag");
      k.require("transform", B.transform().template topLeftCorner<2, 2>() == B.rotation() && B.transform()(2, 2) == Scalar(1) && B.transform()(0, 2) == Scalar(0), "transform()");
      // validation
      const Scalar r2 = (Scalar)((LD)re * scale_off), i2 = (Scalar)((LD)im * scale_off);
      expect_validation(k, "SO2(real,imag)", dsel, [&] { G V(r2, i2); (void)V; });
      expect_validation(k, "SO2(DataType)", dsel, [&] { typename G::DataType d(r2, i2); G V(d); (void)V; });
    } else {
      G B(x, y, re, im), C(typename G::Translation(x, y), std::complex<Scalar>(re, im)), D(x, y, std::complex<Scalar>(re, im));
      k.require("SE2(x,y,re,im)", B.x() == x && B.y() == y && B.real() == re && B.imag() == im && bits_eq(B.coeffs(), C.coeffs()) && bits_eq(B.coeffs(), D.coeffs()), "accessors differ from the constructor arguments");
      k.require("translation()", B.translation()(0) == x && B.translation()(1) == y, "translation()");
      k.require("transform", B.transform()(0, 2) == x && B.transform()(1, 2) == y && B.transform()(0, 0) == re && B.transform()(1, 0) == im && B.transform()(0, 1) == -im && B.transform()(2, 2) == Scalar(1), "transform()");
      k.require("isometry", maxdiff(B.isometry().matrix(), B.transform()) == 0, "isometry() != transform()");
      // isometry constructor
      Eigen::Transform<Scalar, 2, Eigen::Isometry> h = Eigen::Transform<Scalar, 2, Eigen::Isometry>::Identity();
      h.linear() = B.rotation(); h.translation() = B.translation();
      G E(h);
      k.expect("SE2(isometry)", maxdiff(E.transform(), B.transform()), tol * (1 + std::fabs((double)x) + std::fabs((double)y)), "isometry constructor does not reproduce the transform");
      G F(A.x(), A.y(), A.angle());
      k.expect("rebuild from accessors", maxdiff(F.coeffs(), A.coeffs()), tol, "SE2(x(),y(),angle()) does not reproduce the element");
      const Scalar r2 = (Scalar)((LD)re * scale_off), i2 = (Scalar)((LD)im * scale_off);
      expect_validation(k, "SE2(x,y,real,imag)", dsel, [&] { G V(x, y, r2, i2); (void)V; });
      expect_validation(k, "SE2(t,complex)", dsel, [&] { G V(typename G::Translation(x, y), std::complex<Scalar>(r2, i2)); (void)V; });
    }
  }
  if constexpr (kind == K_SO3 || kind == K_SE3 || kind == K_SE23 || kind == K_SGAL3) {
    using Quat = Eigen::Quaternion<Scalar>;
    Scalar roll = a0, pitch = a1, yaw = a2;
    if (gimbal == 1) pitch = (Scalar)(M_PI / 2); else if (gimbal == 2) pitch = (Scalar)(-M_PI / 2);
    const V3 tr(x, y, z), vel(vx, vy, vz);
    auto make_rpy = [&]() {
      if constexpr (kind == K_SO3) return G(roll, pitch, yaw);
      else if constexpr (kind == K_SE3) return G(x, y, z, roll, pitch, yaw);
      else if constexpr (kind == K_SE23) return G(x, y, z, roll, pitch, yaw, vx, vy, vz);
      else return G(x, y, z, roll, pitch, yaw, vx, vy, vz, tt);
    };
    auto make_q = [&](const Quat& q) {
      if constexpr (kind == K_SO3) return G(q);
      else if constexpr (kind == K_SE3) return G(tr, q);
      else if constexpr (kind == K_SE23) return G(tr, q, vel);
      else return G(tr, q, vel, tt);
    };
    const G A = make_rpy();
    const M3L want = rpy_ref((LD)roll, (LD)pitch, (LD)yaw);
    const double atol = tol * (1 + std::fabs((double)roll) + std::fabs((double)pitch) + std::fabs((double)yaw));
    k.expect("rpy ctor: rotation = Rz Ry Rx", rot_err(A.rotation(), want), atol, "rotation() of the roll-pitch-yaw constructor != Rz(yaw) Ry(pitch) Rx(roll)");
    k.expect("rotation orthonormal", ortho_err(A.rotation()), tol, "rotation() not orthonormal with det +1");
    k.bound("rpy ctor: unit", (double)rot_norm_dev(s, toVL(A.coeffs())), eps, "roll-pitch-yaw constructor produced a non-unit quaternion");
    // convention-free: all rpy constructors agree
    { manif::SO3<Scalar> so3(roll, pitch, yaw); k.require("rpy ctors agree", bits_eq(so3.coeffs(), A.quat().coeffs()), "rpy constructors of different groups disagree"); }
    // quaternion constructors return the supplied quantities
    const Quat q = X.quat();
    const G B = make_q(q);
    k.require("quat()", bits_eq(B.quat().coeffs(), q.coeffs()), "quat() differs from the supplied quaternion");
    k.expect("rotation = R(q)", rot_err(B.rotation(), M3L(ref_mat(spec_so3(), toVL(q.coeffs())).template topLeftCorner<3, 3>())), tol, "rotation() != rotation matrix of the quaternion");
    {
      Quat nq(-q.w(), -q.x(), -q.y(), -q.z());
      k.expect("rotation(q) = rotation(-q)", maxdiff(make_q(nq).rotation(), B.rotation()), 16 * kU, "q and -q give different rotation matrices");
    }
    if constexpr (kind != K_SO3) {
      k.require("translation()", bits_eq(B.translation(), tr) && B.x() == x && B.y() == y && B.z() == z, "translation()/x()/y()/z() differ from the supplied translation");
      // transform = [R t; 0 1...]
      const MatL T = toML(B.transform());
      const MatL Tw = ref_mat(s, toVL(B.coeffs()));
      k.expect("transform()", (double)ref_group_err(s, T, Tw, ref_lin_scale_c(s, toVL(B.coeffs()))), tol, "transform() != homogeneous matrix of the supplied quantities");
      k.require("isometry()", maxdiff(B.isometry().matrix(), B.transform()) == 0, "isometry() != transform()");
    } else {
      const MatL T = toML(B.transform());
      k.expect("transform()", (double)ref_group_err(s, T, ref_mat(s, toVL(B.coeffs())), {1.0L}), tol, "transform()");
      k.require("x,y,z,w", B.x() == q.x() && B.y() == q.y() && B.z() == q.z() && B.w() == q.w(), "x()/y()/z()/w()");
    }
    if constexpr (kind == K_SE23 || kind == K_SGAL3) {
      k.require("linearVelocity()", bits_eq(B.linearVelocity(), vel) && B.vx() == vx && B.vy() == vy && B.vz() == vz, "linearVelocity()/vx()/vy()/vz() differ from the supplied velocity");
    }
    if constexpr (kind == K_SGAL3) k.require("t()", B.t() == tt, "t() differs from the supplied time");
    // angle-axis / SO3 / isometry constructors agree with the quaternion one
    {
      Eigen::AngleAxis<Scalar> aa(q);
      auto make_aa = [&]() {
        if constexpr (kind == K_SO3) return G(aa);
        else if constexpr (kind == K_SE3) return G(tr, aa);
        else if constexpr (kind == K_SE23) return G(tr, aa, vel);
        else return G(tr, aa, vel, tt);
      };
      const G C = make_aa();
      k.expect("angle-axis ctor", maxdiff(C.rotation(), B.rotation()), tol, "angle-axis constructor gives a different rotation");
      // angle-axis with prescribed angle (strata) about a fixed axis: rotation = Rodrigues
      const V3 ax = V3(1, 2, -2) / Scalar(3);
      const Eigen::AngleAxis<Scalar> aa2(a0, ax);
      const G Dg = [&] { if constexpr (kind == K_SO3) return G(aa2); else if constexpr (kind == K_SE3) return G(tr, aa2); else if constexpr (kind == K_SE23) return G(tr, aa2, vel); else return G(tr, aa2, vel, tt); }();
      VecL th(3); th << (LD)a0 * (LD)ax(0), (LD)a0 * (LD)ax(1), (LD)a0 * (LD)ax(2);
      const M3L Rw = ref_exp(spec_so3(), th).template topLeftCorner<3, 3>();
      k.expect("angle-axis ctor: Rodrigues", rot_err(Dg.rotation(), Rw), tol * (1 + std::fabs((double)a0)), "rotation of the angle-axis constructor != exp(angle * axis^)");
      if constexpr (kind != K_SO3) {
        const manif::SO3<Scalar> so3(q);
        const G E = [&] { if constexpr (kind == K_SE3) return G(tr, so3); else if constexpr (kind == K_SE23) return G(tr, so3, vel); else return G(tr, so3, vel, tt); }();
        k.require("SO3 ctor", bits_eq(E.coeffs(), B.coeffs()), "constructor from a sub-group element differs from the quaternion constructor");
        Eigen::Transform<Scalar, 3, Eigen::Isometry> h = Eigen::Transform<Scalar, 3, Eigen::Isometry>::Identity();
        h.linear() = B.rotation(); h.translation() = tr;
        const G F = [&] { if constexpr (kind == K_SE3) return G(h); else if constexpr (kind == K_SE23) return G(h, vel); else return G(h, vel, tt); }();
        k.expect("isometry ctor", maxdiff(F.rotation(), B.rotation()), tol, "isometry constructor gives a different rotation");
        k.require("isometry ctor: translation", bits_eq(F.translation(), tr), "isometry constructor changes the translation");
        k.bound("isometry ctor: unit", (double)rot_norm_dev(s, toVL(F.coeffs())), eps, "isometry constructor produced a non-unit quaternion");
        // setters (only SE3 provides them)
        if constexpr (kind == K_SE3) {
          G S1 = A; S1.quat(q); S1.translation(tr);
          k.require("setters", bits_eq(S1.quat().coeffs(), q.coeffs()) && bits_eq(S1.translation(), tr), "quat(q)/translation(t) setters do not store the supplied quantities");
          G S2 = A; S2.quat(so3);
          k.require("quat(SO3) setter", bits_eq(S2.quat().coeffs(), q.coeffs()), "quat(SO3) setter");
        }
      } else {
        G S1 = A; S1.quat(q);
        k.require("setters", bits_eq(S1.quat().coeffs(), q.coeffs()), "quat(q) setter");
      }
    }
    // feeding the accessors back reproduces the element
    {
      const G Rb = [&] {
        if constexpr (kind == K_SO3) return G(X.quat());
        else if constexpr (kind == K_SE3) return G(X.translation(), X.quat());
        else if constexpr (kind == K_SE23) return G(X.translation(), X.quat(), X.linearVelocity());
        else return G(X.translation(), X.quat(), X.linearVelocity(), X.t());
      }();
      k.require("rebuild from accessors", bits_eq(Rb.coeffs(), X.coeffs()), "rebuilding from translation()/quat()/... does not reproduce the element");
    }
    // validation of non-unit quaternions
    {
      Quat qs((Scalar)((LD)q.w() * scale_off), (Scalar)((LD)q.x() * scale_off), (Scalar)((LD)q.y() * scale_off), (Scalar)((LD)q.z() * scale_off));
      expect_validation(k, "ctor(quaternion)", dsel, [&] { G V = make_q(qs); (void)V; });
      if constexpr (kind == K_SO3 || kind == K_SE3) expect_validation(k, "quat(q) setter", dsel, [&] { G V = B; V.quat(qs); });
      typename G::DataType d = B.coeffs();
      const Elem& e = s.e[0];
      for (int i = 0; i < 4; ++i) d(e.rot0() + i) = qs.coeffs()(i);
      expect_validation(k, "ctor(DataType)", dsel, [&] { G V(d); (void)V; });
      if constexpr (kind == K_SO3) expect_validation(k, "SO3(x,y,z,w)", dsel, [&] { G V(qs.x(), qs.y(), qs.z(), qs.w()); (void)V; });
    }
  }
  if constexpr (kind == K_RN) {
    typename G::DataType d = X.coeffs();
    G B(d);
    k.require("Rn(vector)", bits_eq(B.coeffs(), d), "coefficients differ from the supplied vector");
    const MatL T = toML(B.transform());
    k.require("transform()", T.rows() == N + 1 && (T - ref_mat(s, toVL(d))).cwiseAbs().maxCoeff() == 0, "transform() != [I t; 0 1]");
  }
}

// normalize() makes any non-degenerate data acceptable
template <class G, class = void> struct has_normalize : std::false_type {};
template <class G> struct has_normalize<G, decltype(void(std::declval<G&>().normalize()))> : std::true_type {};
template <class G> static void normalize_check(Chk& k, const Spec& s, const Case& c, const G& X) {
  if constexpr (has_normalize<G>::value) {
    // non-degenerate data: scaled by 1e-3 .. 1e3, or off-norm by only 1e-16 .. 1e-1 (both signs)
    const int sel = (int)c.ints[3];
    const Scalar sc = sel <= 8 ? (Scalar)std::pow(10.0, (sel - 4) * 0.75)
                               : (Scalar)(1.0 + ((sel % 2) ? -1.0 : 1.0) * std::pow(10.0, -((sel - 9) / 2 + 1)));
    std::vector<Scalar> buf(R);
    for (int i = 0; i < R; ++i) buf[i] = X.coeffs()(i);
    const Elem& e = s.e[0];
    for (int i = 0; i < e.nrot(); ++i) buf[e.rot0() + i] *= sc;
    Eigen::Map<G> m(buf.data());
    m.normalize();
    const int t = throws([&] { G V(m.coeffs()); (void)V; });
    k.require("normalize() then accepted", t == 0, "data scaled by " + fmt((double)sc) + " is rejected after normalize()");
    k.bound("normalize(): unit", (double)rot_norm_dev(s, toVL(m.coeffs())), (double)manif::Constants<Scalar>::eps, "normalize() does not produce unit rotation data");
    bool lin_same = true;
    for (int i = 0; i < R; ++i) if (!(i >= e.rot0() && i < e.rot0() + e.nrot()) && buf[i] != X.coeffs()(i)) lin_same = false;
    k.require("normalize(): only rotation", lin_same, "normalize() changed non-rotation coefficients");
  }
}

vf::Outcome run_case(const vf::Case& c, const vf::RunCtx& ctx) {
  const Spec s = spec();
  Chk k(ctx);
  try {
    const GroupT X = make_elem<GroupT>(c.reals.data());
    const VecL xc = toVL(X.coeffs());
    if (s.e.size() == 1) { group_specific<GroupT>(k, s, c, X); normalize_check<GroupT>(k, s, c, X); }
    // cast<>(): valid element of the target type, equal to the precision of the narrower type
    {
      using Other = typename std::conditional<kIsFloat, double, float>::type;
      const auto Xo = X.template cast<Other>();
      const double eps_o = (double)manif::Constants<Other>::eps;
      k.bound("cast: valid in target type", (double)rot_norm_dev(s, toVL(Xo.coeffs())), eps_o, "cast<>() result is not a valid element of the target scalar type");
      const double u_narrow = 5.9604644775390625e-08;
      const MatL A = ref_mat(s, xc), B = ref_mat(s, toVL(Xo.coeffs()));
      k.expect("cast: equal to narrow precision", (double)ref_group_err(s, B, A, ref_lin_scale_c(s, xc)), 4096 * u_narrow, "cast<>() changed the element by more than the precision of the narrower type");
      // the cast result is usable: the next operation does not throw
      const int t = throws([&] { auto Z = Xo.inverse(); auto W = Xo * Z; (void)W; auto L = Xo.log(); (void)L; });
      k.require("cast: usable", t == 0, "an operation on the result of cast<>() raised an exception");
      const auto Xs = X.template cast<Scalar>();
      k.expect("cast<same>", maxdiff(Xs.coeffs(), X.coeffs()), 4 * kU, "cast to the same scalar changes the element");
    }
    // generic invariants of any valid element
    {
      const MatL T = toML(X.transform());
      k.expect("transform()=Mat", (double)ref_group_err(s, T, ref_mat(s, xc), ref_lin_scale_c(s, xc)), kValTol, "X.transform() != homogeneous matrix of the coefficients");
    }
    // classification
    bool outside = false, gimbal = c.ints[2] != 0;
    for (int i = 0; i < 3; ++i) if (std::fabs(c.reals[R + i]) > M_PI) outside = true;
    const double dsel = kDelta[c.ints[0]];
    k.o.nontrivial = outside || gimbal || coeff_w_min(s, xc) < 0 || (dsel >= 0.5 && dsel <= 2);
    k.label("delta/eps=" + fmt(dsel));
    if (gimbal) k.label("gimbal");
    if (outside) k.label("angle outside principal range");
    if (coeff_w_min(s, xc) < 0) k.label("w<0");
  } catch (const std::exception& e) {
    k.require("nothrow", false, std::string("exception: ") + e.what());
  }
  return k.o;
}

}  // namespace vfp
