// C07 -- Lie-algebra structure: hat, vee, generators, bracket, inner product.
// Floating configurations: tolerance 2^12 u (relative); rational configurations: exact equality
// and the "inexact" bit of every result must be clear.
#include "vf_manif.h"

using namespace vf;
using namespace vfcfg;

VF_STD_PROPERTY("C07", "both tangents a,b have >= 2 non-zero components (in different component groups when the group has several); distinct = distinct input bit patterns")

namespace vfp {

static const int D = GroupT::DoF;

vf::Shape shape() {
  Shape sh;
#ifdef VF_SCALAR_RAT
  sh.ints.push_back({-3, D + 3});                       // generator index selector
  for (int i = 0; i < 3 * D; ++i) { sh.ints.push_back({-1000000, 1000000}); sh.ints.push_back({0, 40}); }
  sh.ints.push_back({-50, 50}); sh.ints.push_back({1, 9});   // scalar alpha = num/den
  sh.ints.push_back({-2147483647LL - 1, 2147483647LL});       // arbitrary 32-bit index (used when the selector is D+2)
#else
  sh.ints = {{-3, D + 3}, {-2147483647LL - 1, 2147483647LL}};
  sh.n_tangents = 3;
  sh.tp = TP_FULL;
  sh.scalars = {SK_SIGNED_MAG};
  sh.is_float = kIsFloat;
#endif
  return sh;
}

static int gen_index(int64_t sel, int64_t any) {
  if (sel == -3) return std::numeric_limits<int>::min();
  if (sel == -2) return -1000;
  if (sel == -1) return -1;
  if (sel == D + 2) return (int)any;
  if (sel == D + 3) return std::numeric_limits<int>::max();
  return (int)sel;   // 0..D-1 valid, D and D+1 just out of range
}

using Alg = typename TangentT::LieAlg;
using Vec = typename TangentT::DataType;

#ifdef VF_SCALAR_RAT
static Scalar mk(int64_t num, int64_t densel) {
  // denominators: 1 (often), small, powers of two, large primes
  static const long dens[] = {1, 1, 1, 2, 3, 4, 5, 7, 8, 16, 10, 100, 1000, 997, 65536, 1000003};
  long den = dens[densel % 16];
  BigQ q{BigZ(num), BigZ(den)};
  if (densel >= 32) q *= BigQ(BigZ(1000000007L));     // large magnitude
  return Scalar(q);
}
static bool exact(const Scalar& x) { return !x.inexact; }
template <class M> static bool all_exact(const M& m) {
  for (int i = 0; i < m.rows(); ++i) for (int j = 0; j < m.cols(); ++j) if (m(i, j).inexact) return false;
  return true;
}
#endif

// difference measure: exact scalars -> 0/1, floats -> relative to `scale`
template <class A, class B> static double diff(const A& a, const B& b, double scale) {
  double w = 0;
  for (int i = 0; i < a.rows(); ++i) for (int j = 0; j < a.cols(); ++j) {
#ifdef VF_SCALAR_RAT
    if (a(i, j) != b(i, j)) w = 1;
    (void)scale;
#else
    double d = std::fabs((double)a(i, j) - (double)b(i, j)) / scale;
    if (!(d == d)) d = INFINITY;
    w = std::max(w, d);
#endif
  }
  return w;
}
template <class M> static double mmax(const M& m) {
  double w = 0;
  for (int i = 0; i < m.rows(); ++i) for (int j = 0; j < m.cols(); ++j) w = std::max(w, std::fabs((double)m(i, j)));
  return w;
}
#ifdef VF_SCALAR_RAT
static const double kTol = 0.5;   // any difference fails
#else
static const double kTol = kValTol;
#endif

vf::Outcome run_case(const vf::Case& c, const vf::RunCtx& ctx) {
  const Spec s = spec();
  Chk k(ctx);
  TangentT a, b, cc;
  Scalar alpha;
#ifdef VF_SCALAR_RAT
  {
    size_t at = 1;
    TangentT* ts[3] = {&a, &b, &cc};
    for (int t = 0; t < 3; ++t) for (int i = 0; i < D; ++i) { ts[t]->coeffs()(i) = mk(c.ints[at], c.ints[at + 1]); at += 2; }
    alpha = Scalar(BigQ{BigZ(c.ints[at]), BigZ(c.ints[at + 1])});
  }
#else
  a = make_tan<GroupT>(c.reals.data()); b = make_tan<GroupT>(c.reals.data() + D); cc = make_tan<GroupT>(c.reals.data() + 2 * D);
  alpha = (Scalar)c.reals[3 * D];
#endif

  // ---- generators: documented basis for 0 <= i < DoF, invalid_argument otherwise
  {
    const int gi = gen_index(c.ints[0], c.ints.back());
    bool threw_ia = false, threw_other = false;
    Alg G;
    try { G = TangentT::Generator(gi); }
    catch (const manif::invalid_argument&) { threw_ia = true; }
    catch (...) { threw_other = true; }
    if (gi >= 0 && gi < D) {
      k.require("Generator.valid", !threw_ia && !threw_other, "Generator(i) threw for a valid index");
      if (!threw_ia && !threw_other) {
        const MatL want = ref_shrink_alg(s, ref_generator_mat(s, gi));
        bool same = G.rows() == want.rows();
        for (int i = 0; same && i < G.rows(); ++i) for (int j = 0; j < G.cols(); ++j) if ((LD)G(i, j) != want(i, j)) same = false;
        k.require("Generator=table", same, "Generator(" + std::to_string(gi) + ") is not the documented basis matrix");
        // member form agrees
        k.require("generator()==Generator()", diff(a.generator(gi), G, 1) == 0, "a.generator(i) != Generator(i)");
      }
      k.label("index valid");
    } else {
      k.require("Generator.invalid", threw_ia && !threw_other, "Generator(" + std::to_string(gi) + ") did not raise invalid_argument");
      k.label("index out of range");
    }
  }
  // ---- hat is linear: a.hat() = sum a_i G_i ; hat(alpha a + b) = alpha hat(a) + hat(b); Vee(hat a) = a
  const Alg Ha = a.hat(), Hb = b.hat(), Hc = cc.hat();
  {
    Alg sum = Alg::Zero();
    for (int i = 0; i < D; ++i) sum += a.coeffs()(i) * TangentT::Generator(i);
    k.require("hat=sum t_i G_i", diff(Ha, sum, 1) == 0, "a.hat() != sum a_i Generator(i)");
    const MatL want = ref_shrink_alg(s, ref_hat(s, toVL(a.coeffs())));
    bool same = true;
    for (int i = 0; i < Ha.rows(); ++i) for (int j = 0; j < Ha.cols(); ++j) if ((LD)Ha(i, j) != want(i, j)) same = false;
    k.require("hat=reference", same, "a.hat() != reference hat");
    TangentT lin(Vec(alpha * a.coeffs() + b.coeffs()));
    const Alg lhs = lin.hat(), rhs = alpha * Ha + Hb;
    k.expect("hat.linear", diff(lhs, rhs, std::max(1.0, mmax(rhs))), kTol, "hat(alpha a + b) != alpha hat(a) + hat(b)");
    const TangentT va = TangentT::Vee(Ha);
    k.require("Vee(hat)=id", diff(va.coeffs(), a.coeffs(), 1) == 0, "Vee(a.hat()) != a");
    TangentT vb; vb.setVee(Hb);
    k.require("setVee(hat)=id", diff(vb.coeffs(), b.coeffs(), 1) == 0, "setVee(b.hat()) != b");
  }
  // ---- bracket
  {
    const TangentT ab = TangentT::Bracket(a, b), ba = TangentT::Bracket(b, a);
    const Alg comm = Ha * Hb - Hb * Ha;
    const double sc = std::max(1.0, mmax(Ha) * mmax(Hb));
    k.expect("Bracket.hat=[hat a,hat b]", diff(ab.hat(), comm, sc), kTol, "Bracket(a,b).hat() != [hat a, hat b]");
    k.require("bracket.member", diff(a.bracket(b).coeffs(), ab.coeffs(), 1) == 0, "a.bracket(b) != Bracket(a,b)");
    k.expect("bracket.antisym", diff(ab.coeffs(), Vec(-ba.coeffs()), sc), kTol, "[a,b] != -[b,a]");
    // bilinearity: [alpha a + c, b] = alpha [a,b] + [c,b]
    const TangentT lin(Vec(alpha * a.coeffs() + cc.coeffs()));
    const Vec lhs = TangentT::Bracket(lin, b).coeffs();
    const Vec rhs = alpha * ab.coeffs() + TangentT::Bracket(cc, b).coeffs();
    const double sc2 = std::max(1.0, (std::fabs((double)alpha) * mmax(Ha) + mmax(Hc)) * mmax(Hb));
    k.expect("bracket.bilinear", diff(lhs, rhs, sc2), kTol, "[alpha a + c, b] != alpha[a,b] + [c,b]");
    // Jacobi identity
    const Vec j = TangentT::Bracket(a, TangentT::Bracket(b, cc)).coeffs() + TangentT::Bracket(b, TangentT::Bracket(cc, a)).coeffs() +
                  TangentT::Bracket(cc, TangentT::Bracket(a, b)).coeffs();
    const double sc3 = std::max(1.0, mmax(Ha) * mmax(Hb) * mmax(Hc));
    k.expect("bracket.jacobi", diff(j, Vec(Vec::Zero()), sc3), 4 * kTol, "Jacobi identity violated");
    // smallAdj is the matrix of the bracket
    const Vec sab = a.smallAdj() * b.coeffs();
    k.expect("smallAdj*b=[a,b]", diff(sab, ab.coeffs(), sc), kTol, "a.smallAdj()*b != [a,b]");
  }
  // ---- inner product
  {
    const typename TangentT::InnerWeightsMatrix W = TangentT::InnerWeights();
    const Scalar ip = a.inner(b);
    const Scalar aWb = (a.coeffs().transpose() * W * b.coeffs())(0);
    const Scalar frob = (Ha.transpose() * Hb).trace();
    const double sc = std::max(1.0, (double)(a.coeffs().cwiseAbs().transpose() * b.coeffs().cwiseAbs())(0) * 2);
    Eigen::Matrix<Scalar, 1, 1> m1, m2, m3; m1(0) = ip; m2(0) = aWb; m3(0) = frob;
    k.expect("inner=aWb", diff(m1, m2, sc), kTol, "a.inner(b) != a^T W b");
    k.expect("inner=frobenius", diff(m1, m3, sc), kTol, "a.inner(b) != tr(hat(a)^T hat(b))");
    k.require("innerWeights()==InnerWeights()", diff(a.innerWeights(), W, 1) == 0, "member innerWeights differs");
    k.require("W.symmetric", diff(W, typename TangentT::InnerWeightsMatrix(W.transpose()), 1) == 0, "InnerWeights not symmetric");
    // positive definite: leading principal minors > 0 (W is diagonal-dominant small integers: exact in floats too)
    bool pd = true;
    for (int n = 1; n <= D && pd; ++n) {
      Eigen::Matrix<long double, Eigen::Dynamic, Eigen::Dynamic> Wn(n, n);
      for (int i = 0; i < n; ++i) for (int j = 0; j < n; ++j) Wn(i, j) = (long double)W(i, j);
      if (!(Wn.determinant() > 0)) pd = false;
    }
    k.require("W.positive_definite", pd, "InnerWeights not positive definite");
    m1(0) = a.squaredWeightedNorm(); m2(0) = a.inner(a);
    k.expect("sqnorm=inner(a,a)", diff(m1, m2, std::max(1.0, std::fabs((double)m2(0)))), kTol, "squaredWeightedNorm != inner(a,a)");
#ifndef VF_SCALAR_RAT
    const double wn = (double)a.weightedNorm();
    const double want = std::sqrt((double)a.inner(a));
    k.expect("weightedNorm", std::fabs(wn - want) / std::max(1.0, want), kTol, "weightedNorm != sqrt(inner(a,a))");
#endif
  }
#ifdef VF_SCALAR_RAT
  // every result above must have been computed exactly
  {
    bool ex = all_exact(Ha) && all_exact(TangentT::Bracket(a, b).coeffs()) && exact(a.inner(b)) && all_exact(a.smallAdj()) &&
              all_exact(TangentT::InnerWeights()) && all_exact(TangentT::Vee(Ha).coeffs()) && exact(a.squaredWeightedNorm());
    k.require("exact", ex, "a Lie-algebra operation used inexact arithmetic over the exact scalar");
  }
#endif
  // classification
  auto groups_nonzero = [&](const TangentT& t) {
    int nz = 0; std::set<int> parts;
    for (size_t e = 0; e < s.e.size(); ++e) for (int i = 0; i < s.e[e].dof(); ++i) {
      if (t.coeffs()(s.dof_off((int)e) + i) != Scalar(0)) {
        ++nz;
        const Elem& el = s.e[e];
        bool is_ang = el.k != K_RN && i >= el.ang0() && i < el.ang0() + el.nang();
        parts.insert((int)e * 2 + (is_ang ? 1 : 0));
      }
    }
    int nparts_possible = 0;
    for (auto& el : s.e) nparts_possible += (el.k != K_RN && el.dof() > el.nang()) ? 2 : 1;
    return nz >= std::min(2, D) && ((int)parts.size() >= std::min(2, nparts_possible));
  };
  k.o.nontrivial = groups_nonzero(a) && groups_nonzero(b);
  return k.o;
}

}  // namespace vfp
