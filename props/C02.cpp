// C02 -- exp is the matrix exponential of hat, uniformly in the size of the tangent.
#include "vf_manif.h"

using namespace vf;
using namespace vfcfg;

VF_STD_PROPERTY("C02", "theta != 0 in some element (or the group has no rotation) and some linear component >= 1e-3; distinct = distinct input bit patterns")

namespace vfp {

vf::Shape shape() {
  Shape sh;
  sh.n_tangents = 1;
  sh.tp = TP_FULL;
  sh.is_float = kIsFloat;
  return sh;
}

static void check(Chk& k, const Spec& s, const Case& c, Prec prec) {
  const VecL t = vecL(c.reals.data(), s.dof());
  const TangentT T = make_tan<GroupT>(c.reals.data());

  // hat() equals sum t_i G_i exactly
  {
    MatL H = toML(T.hat());
    MatL Href = ref_shrink_alg(s, ref_hat(s, t));
    k.require("hat", H.rows() == Href.rows() && (H - Href).cwiseAbs().maxCoeff() == 0, "t.hat() differs from sum t_i G_i");
  }

  GroupT X;
  try {
    X = T.exp();
  } catch (const std::exception& e) {
    k.require("exp.nothrow", false, std::string("exp threw: ") + e.what());
    return;
  }
  const VecL xc = toVL(X.coeffs());
  k.require("exp.finite", all_finite(X.coeffs()), "non-finite coefficient in exp(t)");
  if (!all_finite(X.coeffs())) return;
  k.bound("exp.unit", (double)rot_norm_dev(s, xc), (double)manif::Constants<Scalar>::eps, "rotation part of exp(t) not unit within the acceptance threshold");

  const std::vector<LD> S = ref_lin_scale_t(s, t);
  const MatL want = ref_exp(s, t, prec);
  const MatL got = ref_mat(s, xc, prec);
  const LD err = ref_group_err(s, got, want, S);

  // known findings (regions of the input space; see KNOWN_FINDINGS.json)
  const LD thmax = tan_theta_max(s, t);
  bool excluded = false;
  (void)thmax;
  if (!excluded) k.expect("exp.matrix", (double)err, kValTol, "Mat(t.exp()) != expm(hat(t)), block-relative");
}

vf::Outcome run_case(const vf::Case& c, const vf::RunCtx& ctx) {
  const Spec s = spec();
  Chk k(ctx);
  check(k, s, c, P_LD);
  if (k.suspicious(0.1)) {
    Chk k2(ctx);
    check(k2, s, c, P_MP);
    k2.o.confirmed_mp = 1;
    k = k2;
  }
  const VecL t = vecL(c.reals.data(), s.dof());
  const LD th = tan_theta_max(s, t), lin = tan_lin_max(s, t);
  k.label(std::string(theta_stratum((double)th, kIsFloat)));
  k.label(std::string(mag_decade((double)lin)));
  bool has_lin = false;
  for (auto& e : s.e) if (e.dof() > e.nang() || e.k == K_RN) has_lin = true;
  k.o.nontrivial = (th != 0 || !s.has_rotation()) && (lin >= 1e-3 || !has_lin);
  return k.o;
}

}  // namespace vfp
