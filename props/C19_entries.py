"""C19 -- table of documented API entries of artivis/manif (one-line client programs).

Each entry is a dict
    name    unique identifier (also used in replay file names)
    cat     'group' | 'tangent' | 'free' | 'algorithm'
    mut     True when the entry mutates its (first) operand of the kind under test
            (such entries are never generated for the Map<const> kind)
    groups  None (every group) or a set of group families out of FAMILIES
    kinds   None (every operand kind) or a tuple out of ('own', 'map', 'cmap')
    per_element  True: Bundle only, the snippet is expanded once per bundle element, '{I}' = index
    doc     where the entry is documented
    code    C++ statements.  Names available in a snippet:
              G   owning group type            T   G::Tangent          S   scalar
              GK  type of the group operand of the kind under test (G, Eigen::Map<G>, Eigen::Map<const G>)
              TK  same for tangents
              X Y   group operands of the kind under test      Xo Yo  owning copies, same coefficients
              t u   tangent operands of the kind under test    to uo  owning copies
              J1 J2 J3 J4   G::Jacobian (DoF x DoF), uninitialised outputs
              JA1 JA2       Eigen::Matrix<S, Dim, DoF>   JV1 JV2   Eigen::Matrix<S, Dim, Dim>  (act Jacobians)
              v   G::Vector point      tv  T::DataType vector       s   scalar in [0.25, 1]     eps  S(1e-4)
              bufG  S[G::RepSize] holding the coefficients of Yo    bufT  S[T::RepSize] holding those of uo
            Placeholders expanded by the generator (Bundle only): {I} element index, {N} number of elements,
              {XELEMS} = X.element<0>(), X.element<1>(), ...   {TELEMS} = t.element<0>(), ...
            Checks:  CHECK_SAME(a, b)  bit-for-bit equality of two groups / tangents / Eigen objects / scalars
                     CHECK_TRUE(c)

Only documented public API is listed: README operation table, docs/pages/cpp/*.md, the doc-commented
public members of lie_group_base.h / tangent_base.h / <group>_base.h / <group>Tangent_base.h,
functions.h and manif/algorithms/*.h as included by manif/manif.h.
"""

import re

FAMILIES = ('SO2', 'SE2', 'SO3', 'SE3', 'SE_2_3', 'SGal3', 'Rn', 'Bundle')

ENTRIES = []


def E(name, cat, code, mut=False, groups=None, kinds=None, per_element=False, doc=''):
    if kinds is None and re.search(r'_(arg_owning|this_owning|this_owning_J|mixed)$', name):
        kinds = ('map', 'cmap')   # with owning operands these coincide with the plain entry
    if groups is not None:
        groups = set(groups)
        assert groups <= set(FAMILIES), groups
    ENTRIES.append({'name': name, 'cat': cat, 'mut': mut, 'groups': groups, 'kinds': kinds,
                    'per_element': per_element, 'doc': doc, 'code': code.strip()})


ROT = ('SO2', 'SE2', 'SO3', 'SE3', 'SE_2_3', 'SGal3')
QUAT = ('SO3', 'SE3', 'SE_2_3', 'SGal3')
TRANS = ('SE2', 'SE3', 'SE_2_3', 'SGal3')
LGB = 'lie_group_base.h'
TGB = 'tangent_base.h'
README = 'README.md operation table'

# ---------------------------------------------------------------------------------------------
# group members (LieGroupBase)
# ---------------------------------------------------------------------------------------------
E('g_inverse', 'group', 'CHECK_SAME(X.inverse(), Xo.inverse());', doc=README)
E('g_inverse_J', 'group', 'CHECK_SAME(X.inverse(J1), Xo.inverse(J2)); CHECK_SAME(J1, J2);', doc=LGB)
E('g_log', 'group', 'CHECK_SAME(X.log(), Xo.log());', doc=README)
E('g_log_J', 'group', 'CHECK_SAME(X.log(J1), Xo.log(J2)); CHECK_SAME(J1, J2);', doc=LGB)
E('g_lift', 'group', 'CHECK_SAME(X.lift(), Xo.log());', doc=LGB)
E('g_lift_J', 'group', 'CHECK_SAME(X.lift(J1), Xo.log(J2)); CHECK_SAME(J1, J2);', doc=LGB)
E('g_compose', 'group', 'CHECK_SAME(X.compose(Y), Xo.compose(Yo));', doc=README)
E('g_compose_J', 'group',
  'CHECK_SAME(X.compose(Y, J1, J2), Xo.compose(Yo, J3, J4)); CHECK_SAME(J1, J3); CHECK_SAME(J2, J4);', doc=LGB)
E('g_compose_skipJ', 'group',
  'CHECK_SAME(X.compose(Y, GK::_, J2), Xo.compose(Yo, G::_, J4)); CHECK_SAME(J2, J4);', doc=LGB + ' (helper _)')
E('g_compose_arg_owning', 'group', 'CHECK_SAME(X.compose(Yo), Xo.compose(Yo));', doc=LGB)
E('g_compose_this_owning', 'group', 'CHECK_SAME(Xo.compose(Y), Xo.compose(Yo));', doc=LGB)
E('g_compose_this_owning_J', 'group',
  'CHECK_SAME(Xo.compose(Y, J1, J2), Xo.compose(Yo, J3, J4)); CHECK_SAME(J1, J3); CHECK_SAME(J2, J4);', doc=LGB)
E('g_between', 'group', 'CHECK_SAME(X.between(Y), Xo.between(Yo));', doc=README)
E('g_between_J', 'group',
  'CHECK_SAME(X.between(Y, J1, J2), Xo.between(Yo, J3, J4)); CHECK_SAME(J1, J3); CHECK_SAME(J2, J4);', doc=LGB)
E('g_between_arg_owning', 'group', 'CHECK_SAME(X.between(Yo), Xo.between(Yo));', doc=LGB)
E('g_between_this_owning', 'group', 'CHECK_SAME(Xo.between(Y), Xo.between(Yo));', doc=LGB)
for _op, _canon in (('rplus', 'rplus'), ('lplus', 'lplus'), ('plus', 'rplus')):
    E('g_%s' % _op, 'group', 'CHECK_SAME(X.%s(t), Xo.%s(to));' % (_op, _canon), doc=README)
    E('g_%s_J' % _op, 'group',
      'CHECK_SAME(X.%s(t, J1, J2), Xo.%s(to, J3, J4)); CHECK_SAME(J1, J3); CHECK_SAME(J2, J4);' % (_op, _canon), doc=LGB)
    E('g_%s_arg_owning' % _op, 'group', 'CHECK_SAME(X.%s(to), Xo.%s(to));' % (_op, _canon), doc=LGB)
    E('g_%s_this_owning' % _op, 'group', 'CHECK_SAME(Xo.%s(t), Xo.%s(to));' % (_op, _canon), doc=LGB)
for _op, _canon in (('rminus', 'rminus'), ('lminus', 'lminus'), ('minus', 'rminus')):
    E('g_%s' % _op, 'group', 'CHECK_SAME(X.%s(Y), Xo.%s(Yo));' % (_op, _canon), doc=README)
    E('g_%s_J' % _op, 'group',
      'CHECK_SAME(X.%s(Y, J1, J2), Xo.%s(Yo, J3, J4)); CHECK_SAME(J1, J3); CHECK_SAME(J2, J4);' % (_op, _canon), doc=LGB)
    E('g_%s_arg_owning' % _op, 'group', 'CHECK_SAME(X.%s(Yo), Xo.%s(Yo));' % (_op, _canon), doc=LGB)
    E('g_%s_this_owning' % _op, 'group', 'CHECK_SAME(Xo.%s(Y), Xo.%s(Yo));' % (_op, _canon), doc=LGB)
E('g_act', 'group', 'CHECK_SAME(X.act(v), Xo.act(v));', doc=README)
E('g_act_J', 'group',
  'CHECK_SAME(X.act(v, JA1, JV1), Xo.act(v, JA2, JV2)); CHECK_SAME(JA1, JA2); CHECK_SAME(JV1, JV2);', doc=LGB)
E('g_adj', 'group', 'CHECK_SAME(X.adj(), Xo.adj());', doc=README)
E('g_isApprox', 'group',
  'CHECK_SAME(X.isApprox(Y), Xo.isApprox(Yo)); CHECK_TRUE(X.isApprox(Xo)); CHECK_TRUE(Xo.isApprox(X));', doc=LGB)
E('g_isApprox_eps', 'group',
  'CHECK_SAME(X.isApprox(Y, eps), Xo.isApprox(Yo, eps)); CHECK_TRUE(X.isApprox(Xo, eps));', doc=LGB)
E('g_op_eq', 'group',
  'CHECK_SAME(X == Y, Xo.isApprox(Yo)); CHECK_TRUE(X == Xo); CHECK_TRUE(Xo == X);', doc=LGB)
E('g_op_plus', 'group', 'CHECK_SAME(X + t, Xo.rplus(to));', doc=README)
E('g_op_plus_arg_owning', 'group', 'CHECK_SAME(X + to, Xo.rplus(to));', doc=README)
E('g_op_plus_this_owning', 'group', 'CHECK_SAME(Xo + t, Xo.rplus(to));', doc=README)
E('g_op_pluseq', 'group', 'X += t; CHECK_SAME(X, Xo.rplus(to));', mut=True, doc=LGB)
E('g_op_pluseq_arg_owning', 'group', 'X += to; CHECK_SAME(X, Xo.rplus(to));', mut=True, doc=LGB)
E('g_op_pluseq_this_owning', 'group', 'G Z(Xo); Z += t; CHECK_SAME(Z, Xo.rplus(to));', doc=LGB)
E('g_op_minus', 'group', 'CHECK_SAME(X - Y, Xo.rminus(Yo));', doc=README)
E('g_op_minus_arg_owning', 'group', 'CHECK_SAME(X - Yo, Xo.rminus(Yo));', doc=README)
E('g_op_minus_this_owning', 'group', 'CHECK_SAME(Xo - Y, Xo.rminus(Yo));', doc=README)
E('g_op_mul', 'group', 'CHECK_SAME(X * Y, Xo.compose(Yo));', doc=README)
E('g_op_mul_arg_owning', 'group', 'CHECK_SAME(X * Yo, Xo.compose(Yo));', doc=README)
E('g_op_mul_this_owning', 'group', 'CHECK_SAME(Xo * Y, Xo.compose(Yo));', doc=README)
E('g_op_muleq', 'group', 'X *= Y; CHECK_SAME(X, Xo.compose(Yo));', mut=True, doc=LGB)
E('g_op_muleq_arg_owning', 'group', 'X *= Yo; CHECK_SAME(X, Xo.compose(Yo));', mut=True, doc=LGB)
E('g_op_muleq_this_owning', 'group', 'G Z(Xo); Z *= Y; CHECK_SAME(Z, Xo.compose(Yo));', doc=LGB)
E('g_index', 'group',
  'for (unsigned int i = 0; i < (unsigned int)G::RepSize; ++i) CHECK_SAME(X[i], Xo.coeffs()[i]);', doc=LGB)
E('g_index_write', 'group', 'X[0] = Yo[0]; CHECK_SAME(X.coeffs()[0], Yo.coeffs()[0]);', mut=True, doc=LGB)
E('g_size', 'group', 'CHECK_SAME(X.size(), (unsigned int)G::RepSize);', doc=LGB)
E('g_coeffs', 'group', 'CHECK_SAME(X.coeffs(), Xo.coeffs());', doc=LGB)
E('g_coeffs_write', 'group', 'X.coeffs() = Yo.coeffs(); CHECK_SAME(X, Yo);', mut=True, doc=LGB)
E('g_data', 'group',
  'CHECK_TRUE(X.data() == X.coeffs().data()); CHECK_SAME(X.data()[G::RepSize - 1], Xo.data()[G::RepSize - 1]);', doc=LGB)
E('g_data_write', 'group', 'X.data()[0] = Yo.data()[0]; CHECK_SAME(X.coeffs()[0], Yo.coeffs()[0]);', mut=True, doc=LGB)
E('g_cast_float', 'group', 'CHECK_SAME(X.template cast<float>(), Xo.template cast<float>());', doc=LGB)
E('g_cast_double', 'group', 'CHECK_SAME(X.template cast<double>(), Xo.template cast<double>());', doc=LGB)
E('g_setIdentity', 'group',
  'CHECK_TRUE(&X.setIdentity() == &X); CHECK_SAME(X, T::Zero().exp()); CHECK_SAME(X, G::Identity());', mut=True, doc=LGB)
E('g_setRandom', 'group',
  'CHECK_TRUE(&X.setRandom() == &X); CHECK_TRUE(X.coeffs().allFinite()); CHECK_TRUE(X.isApprox(X));', mut=True, doc=LGB)
E('g_Identity', 'group', 'CHECK_SAME(GK::Identity(), T::Zero().exp()); CHECK_SAME(X.compose(GK::Identity()), Xo.compose(G::Identity()));', doc=LGB)
E('g_Random', 'group', 'G R = GK::Random(); CHECK_TRUE(R.coeffs().allFinite()); CHECK_TRUE(R.isApprox(R));', doc=LGB)
E('g_stream_out', 'group',
  'std::ostringstream a, b; a << X; b << Xo.coeffs().transpose(); CHECK_TRUE(a.str() == b.str());', doc=LGB)
E('g_static_props', 'group',
  'CHECK_TRUE(int(GK::DoF) == int(G::DoF)); CHECK_TRUE(int(GK::Dim) == int(G::Dim));'
  ' CHECK_TRUE(int(GK::RepSize) == int(G::RepSize));'
  ' CHECK_TRUE((std::is_same<typename GK::Scalar, S>::value)); CHECK_TRUE((std::is_same<typename GK::Tangent, T>::value));'
  ' CHECK_TRUE((std::is_same<typename GK::LieGroup, G>::value));', doc='Writing-generic-code.md')
E('g_static_props_odr', 'group',
  'const int& dof = GK::DoF; const int& dim = GK::Dim; const int& rep = GK::RepSize;'
  ' CHECK_SAME(dof, int(G::DoF)); CHECK_SAME(dim, int(G::Dim)); CHECK_SAME(rep, int(G::RepSize));', doc='Writing-generic-code.md')
E('g_generic_code', 'group',
  'CHECK_SAME(c19::generic_ominus_norm(X, Y), (Xo - Yo).squaredWeightedNorm());'
  ' CHECK_SAME(c19::generic_ominus_norm(X, Yo), (Xo - Yo).squaredWeightedNorm());'
  ' CHECK_SAME(c19::generic_ominus_norm(Xo, Y), (Xo - Yo).squaredWeightedNorm());'
  ' CHECK_TRUE(c19::generic_print(X) == c19::generic_print(Xo));', doc='Writing-generic-code.md')
# construction / assignment across kinds
E('g_copy_same_kind', 'group', 'GK Z(X); CHECK_SAME(Z, Xo);', doc=LGB)
E('g_ctor_owning_from', 'group', 'G Z(X); CHECK_SAME(Z, Xo); G W = X; CHECK_SAME(W, Xo);', doc='<Group>.h copy constructor')
E('g_ctor_owning_from_coeffs', 'group', 'G Z(X.coeffs()); CHECK_SAME(Z, Xo);', doc='<Group>.h')
E('g_assign_owning_from', 'group', 'G Z; Z = X; CHECK_SAME(Z, Xo);', doc=LGB)
E('g_assign_map_from', 'group', 'Eigen::Map<G> M(bufG); M = X; CHECK_SAME(M, Xo); CHECK_SAME(bufG[0], Xo.coeffs()[0]);', doc=LGB)
E('g_assign_same_kind', 'group', 'X = Y; CHECK_SAME(X, Yo);', mut=True, doc=LGB)
E('g_assign_from_owning', 'group', 'X = Yo; CHECK_SAME(X, Yo);', mut=True, doc=LGB)
E('g_assign_from_map', 'group', 'Eigen::Map<G> M(bufG); X = M; CHECK_SAME(X, Yo);', mut=True, doc=LGB)
E('g_assign_from_cmap', 'group', 'const Eigen::Map<const G> M(bufG); X = M; CHECK_SAME(X, Yo);', mut=True, doc=LGB)
E('g_assign_from_eigen', 'group', 'X = Yo.coeffs(); CHECK_SAME(X, Yo);', mut=True, doc=LGB)
E('g_assign_from_temporary', 'group', 'X = Yo.inverse(); CHECK_SAME(X, Yo.inverse());', mut=True, doc=LGB)
E('g_move_from', 'group', 'G tmp(X); G Z(std::move(tmp)); CHECK_SAME(Z, Xo); G W; W = std::move(Z); CHECK_SAME(W, Xo);', doc='<Group>.h move constructor / assignment')
E('g_move_into', 'group', 'G tmp(Yo); X = std::move(tmp); CHECK_SAME(X, Yo);', mut=True, doc=LGB)

# per-group accessors
E('g_transform', 'group', 'CHECK_SAME(X.transform(), Xo.transform());', doc='<Group>_base.h')
E('g_rotation', 'group', 'CHECK_SAME(X.rotation(), Xo.rotation());', groups=ROT, doc='<Group>_base.h')
E('g_translation', 'group', 'CHECK_SAME(X.translation(), Xo.translation());', groups=TRANS, doc='<Group>_base.h')
E('g_x', 'group', 'CHECK_SAME(X.x(), Xo.x());', groups=('SE2', 'SO3', 'SE3', 'SE_2_3', 'SGal3'), doc='<Group>_base.h')
E('g_y', 'group', 'CHECK_SAME(X.y(), Xo.y());', groups=('SE2', 'SO3', 'SE3', 'SE_2_3', 'SGal3'), doc='<Group>_base.h')
E('g_z', 'group', 'CHECK_SAME(X.z(), Xo.z());', groups=('SO3', 'SE3', 'SE_2_3', 'SGal3'), doc='<Group>_base.h')
E('g_w', 'group', 'CHECK_SAME(X.w(), Xo.w());', groups=('SO3',), doc='SO3_base.h')
E('g_real', 'group', 'CHECK_SAME(X.real(), Xo.real());', groups=('SO2', 'SE2'), doc='<Group>_base.h')
E('g_imag', 'group', 'CHECK_SAME(X.imag(), Xo.imag());', groups=('SO2', 'SE2'), doc='<Group>_base.h')
E('g_angle', 'group', 'CHECK_SAME(X.angle(), Xo.angle());', groups=('SO2', 'SE2'), doc='<Group>_base.h')
E('g_quat', 'group', 'CHECK_SAME(X.quat(), Xo.quat());', groups=QUAT, doc='<Group>_base.h')
E('g_normalize', 'group', 'G Z(Xo); Z.normalize(); X.normalize(); CHECK_SAME(X, Z); CHECK_TRUE(X.isApprox(Xo));',
  mut=True, groups=ROT, doc='<Group>_base.h')
E('g_quat_set', 'group', 'X.quat(Yo.quat()); CHECK_SAME(X.quat(), Yo.quat());', mut=True, groups=('SO3', 'SE3'), doc='<Group>_base.h')
E('g_quat_set_eigen', 'group', 'X.quat(Yo.quat().coeffs()); CHECK_SAME(X.quat(), Yo.quat());',
  mut=True, groups=('SO3', 'SE3'), doc='<Group>_base.h')
E('g_quat_set_so3', 'group', 'manif::SO3<S> R(Yo.quat()); X.quat(R); CHECK_SAME(X.quat(), Yo.quat());',
  mut=True, groups=('SE3',), doc='SE3_base.h')
E('g_translation_set', 'group', 'X.translation(Yo.translation()); CHECK_SAME(X.translation(), Yo.translation());',
  mut=True, groups=('SE3',), doc='SE3_base.h')
E('g_linearVelocity', 'group', 'CHECK_SAME(X.linearVelocity(), Xo.linearVelocity());', groups=('SE_2_3', 'SGal3'), doc='<Group>_base.h')
E('g_vx', 'group', 'CHECK_SAME(X.vx(), Xo.vx());', groups=('SE_2_3', 'SGal3'), doc='<Group>_base.h')
E('g_vy', 'group', 'CHECK_SAME(X.vy(), Xo.vy());', groups=('SE_2_3', 'SGal3'), doc='<Group>_base.h')
E('g_vz', 'group', 'CHECK_SAME(X.vz(), Xo.vz());', groups=('SE_2_3', 'SGal3'), doc='<Group>_base.h')
E('g_t', 'group', 'CHECK_SAME(X.t(), Xo.t());', groups=('SGal3',), doc='SGal3_base.h')
E('g_isometry', 'group', 'CHECK_SAME(X.isometry(), Xo.isometry());', groups=TRANS, doc='<Group>_base.h')
# Bundle
E('g_element', 'group', 'CHECK_SAME(X.template element<{I}>(), Xo.template element<{I}>());'
  ' CHECK_SAME(X.template element<{I}>().inverse(), Xo.template element<{I}>().inverse());',
  groups=('Bundle',), per_element=True, doc='Bundle_base.h')
E('g_element_write', 'group',
  'X.template element<{I}>() = Yo.template element<{I}>(); CHECK_SAME(X.template element<{I}>(), Yo.template element<{I}>());',
  mut=True, groups=('Bundle',), per_element=True, doc='Bundle_base.h')
E('g_BundleSize', 'group', 'CHECK_TRUE(std::size_t(GK::BundleSize) == std::size_t({N}));', groups=('Bundle',), doc='Bundle_base.h')
E('g_BundleSize_odr', 'group', 'const std::size_t& n = GK::BundleSize; CHECK_SAME(n, std::size_t({N}));',
  groups=('Bundle',), doc='Bundle_base.h')
E('g_bundle_ctor_elements', 'group', 'G Z({XELEMS}); CHECK_SAME(Z, Xo);', groups=('Bundle',), doc='Bundle.h')
E('g_bundle_Element_type', 'group',
  'typename GK::template Element<{I}> e = X.template element<{I}>(); CHECK_SAME(e, Xo.template element<{I}>());',
  groups=('Bundle',), per_element=True, doc='Bundle_base.h')

# ---------------------------------------------------------------------------------------------
# tangent members (TangentBase)
# ---------------------------------------------------------------------------------------------
E('t_exp', 'tangent', 'CHECK_SAME(t.exp(), to.exp());', doc=README)
E('t_exp_J', 'tangent', 'CHECK_SAME(t.exp(J1), to.exp(J2)); CHECK_SAME(J1, J2);', doc=TGB)
E('t_retract', 'tangent', 'CHECK_SAME(t.retract(), to.exp());', doc=TGB)
E('t_retract_J', 'tangent', 'CHECK_SAME(t.retract(J1), to.exp(J2)); CHECK_SAME(J1, J2);', doc=TGB)
E('t_hat', 'tangent', 'CHECK_SAME(t.hat(), to.hat());', doc=README)
for _m in ('rjac', 'ljac', 'rjacinv', 'ljacinv', 'smallAdj'):
    E('t_%s' % _m, 'tangent', 'CHECK_SAME(t.%s(), to.%s());' % (_m, _m), doc=README if _m == 'smallAdj' else TGB)
E('t_bracket', 'tangent', 'CHECK_SAME(t.bracket(u), to.bracket(uo));', doc=TGB)
E('t_bracket_arg_owning', 'tangent', 'CHECK_SAME(t.bracket(uo), to.bracket(uo));', doc=TGB)
E('t_bracket_this_owning', 'tangent', 'CHECK_SAME(to.bracket(u), to.bracket(uo));', doc=TGB)
E('t_Bracket', 'tangent', 'CHECK_SAME(TK::Bracket(t, u), to.bracket(uo));', doc=TGB)
E('t_Bracket_arg_owning', 'tangent', 'CHECK_SAME(TK::Bracket(t, uo), to.bracket(uo));', doc=TGB)
E('t_Bracket_this_owning', 'tangent', 'CHECK_SAME(T::Bracket(to, u), to.bracket(uo));', doc=TGB)
E('t_Vee', 'tangent', 'CHECK_SAME(TK::Vee(t.hat()), to);', doc=TGB)
E('t_setVee', 'tangent', 'CHECK_TRUE(&t.setVee(uo.hat()) == &t); CHECK_SAME(t, uo);', mut=True, doc=TGB)
E('t_inner', 'tangent', 'CHECK_SAME(t.inner(u), to.inner(uo));', doc=README)
E('t_inner_arg_owning', 'tangent', 'CHECK_SAME(t.inner(uo), to.inner(uo));', doc=README)
E('t_inner_this_owning', 'tangent', 'CHECK_SAME(to.inner(u), to.inner(uo));', doc=README)
E('t_weightedNorm', 'tangent', 'CHECK_SAME(t.weightedNorm(), to.weightedNorm());', doc=README)
E('t_squaredWeightedNorm', 'tangent',
  'CHECK_SAME(t.squaredWeightedNorm(), to.squaredWeightedNorm()); CHECK_SAME(t.squaredWeightedNorm(), to.inner(to));', doc=README)
E('t_generator', 'tangent', 'for (int i = 0; i < int(T::DoF); ++i) CHECK_SAME(t.generator(i), T::Generator(i));', doc=TGB)
E('t_Generator', 'tangent', 'for (int i = 0; i < int(T::DoF); ++i) CHECK_SAME(TK::Generator(i), T::Generator(i));', doc=TGB)
E('t_innerWeights', 'tangent', 'CHECK_SAME(t.innerWeights(), T::InnerWeights());', doc=TGB)
E('t_InnerWeights', 'tangent', 'CHECK_SAME(TK::InnerWeights(), T::InnerWeights());', doc=TGB)
E('t_rplus_X', 'tangent', 'CHECK_SAME(t.rplus(X), Xo.rplus(to));', doc=TGB)
E('t_rplus_X_J', 'tangent',
  'CHECK_SAME(t.rplus(X, J1, J2), Xo.rplus(to, J4, J3)); CHECK_SAME(J1, J3); CHECK_SAME(J2, J4);', doc=TGB)
E('t_rplus_X_arg_owning', 'tangent', 'CHECK_SAME(t.rplus(Xo), Xo.rplus(to));', doc=TGB)
E('t_rplus_X_this_owning', 'tangent', 'CHECK_SAME(to.rplus(X), Xo.rplus(to));', doc=TGB)
E('t_lplus_X', 'tangent', 'CHECK_SAME(t.lplus(X), Xo.lplus(to));', doc=README)
E('t_lplus_X_J', 'tangent',
  'CHECK_SAME(t.lplus(X, J1, J2), Xo.lplus(to, J4, J3)); CHECK_SAME(J1, J3); CHECK_SAME(J2, J4);', doc=TGB)
E('t_lplus_X_arg_owning', 'tangent', 'CHECK_SAME(t.lplus(Xo), Xo.lplus(to));', doc=README)
E('t_lplus_X_this_owning', 'tangent', 'CHECK_SAME(to.lplus(X), Xo.lplus(to));', doc=README)
E('t_plus_X', 'tangent', 'CHECK_SAME(t.plus(X), Xo.lplus(to));', doc=README)
E('t_plus_X_J', 'tangent',
  'CHECK_SAME(t.plus(X, J1, J2), Xo.lplus(to, J4, J3)); CHECK_SAME(J1, J3); CHECK_SAME(J2, J4);', doc=TGB)
E('t_plus_X_arg_owning', 'tangent', 'CHECK_SAME(t.plus(Xo), Xo.lplus(to));', doc=README)
E('t_plus_X_this_owning', 'tangent', 'CHECK_SAME(to.plus(X), Xo.lplus(to));', doc=README)
E('t_plus_t', 'tangent', 'CHECK_SAME(t.plus(u), T(to.coeffs() + uo.coeffs()));', doc=TGB)
E('t_plus_t_J', 'tangent',
  'CHECK_SAME(t.plus(u, J1, J2), T(to.coeffs() + uo.coeffs())); CHECK_SAME(J1, G::Jacobian::Identity()); CHECK_SAME(J2, G::Jacobian::Identity());', doc=TGB)
E('t_plus_t_arg_owning', 'tangent', 'CHECK_SAME(t.plus(uo), T(to.coeffs() + uo.coeffs()));', doc=TGB)
E('t_plus_t_this_owning', 'tangent', 'CHECK_SAME(to.plus(u), T(to.coeffs() + uo.coeffs()));', doc=TGB)
E('t_minus_t', 'tangent', 'CHECK_SAME(t.minus(u), T(to.coeffs() - uo.coeffs()));', doc=TGB)
E('t_minus_t_J', 'tangent',
  'CHECK_SAME(t.minus(u, J1, J2), T(to.coeffs() - uo.coeffs())); CHECK_SAME(J1, G::Jacobian::Identity());'
  ' CHECK_SAME(J2, (G::Jacobian::Identity() * S(-1)).eval());', doc=TGB)
E('t_minus_t_arg_owning', 'tangent', 'CHECK_SAME(t.minus(uo), T(to.coeffs() - uo.coeffs()));', doc=TGB)
E('t_minus_t_this_owning', 'tangent', 'CHECK_SAME(to.minus(u), T(to.coeffs() - uo.coeffs()));', doc=TGB)
E('t_op_plus_X', 'tangent', 'CHECK_SAME(t + X, Xo.lplus(to));', doc=README)
E('t_op_plus_X_arg_owning', 'tangent', 'CHECK_SAME(t + Xo, Xo.lplus(to));', doc=README)
E('t_op_plus_X_this_owning', 'tangent', 'CHECK_SAME(to + X, Xo.lplus(to));', doc=README)
E('t_op_neg', 'tangent', 'CHECK_SAME(-t, T(-to.coeffs()));', doc=TGB)
E('t_op_plus_t', 'tangent', 'CHECK_SAME(t + u, T(to.coeffs() + uo.coeffs()));', doc=TGB)
E('t_op_plus_t_arg_owning', 'tangent', 'CHECK_SAME(t + uo, T(to.coeffs() + uo.coeffs()));', doc=TGB)
E('t_op_plus_t_this_owning', 'tangent', 'CHECK_SAME(to + u, T(to.coeffs() + uo.coeffs()));', doc=TGB)
E('t_op_minus_t', 'tangent', 'CHECK_SAME(t - u, T(to.coeffs() - uo.coeffs()));', doc=TGB)
E('t_op_minus_t_arg_owning', 'tangent', 'CHECK_SAME(t - uo, T(to.coeffs() - uo.coeffs()));', doc=TGB)
E('t_op_minus_t_this_owning', 'tangent', 'CHECK_SAME(to - u, T(to.coeffs() - uo.coeffs()));', doc=TGB)
E('t_op_plus_v', 'tangent', 'CHECK_SAME(t + tv, T(to.coeffs() + tv));', doc=TGB)
E('t_op_minus_v', 'tangent', 'CHECK_SAME(t - tv, T(to.coeffs() - tv));', doc=TGB)
E('t_op_v_plus', 'tangent', 'CHECK_SAME(tv + t, (tv + to.coeffs()).eval());', doc=TGB)
E('t_op_v_minus', 'tangent', 'CHECK_SAME(tv - t, (tv - to.coeffs()).eval());', doc=TGB)
E('t_op_mul_s', 'tangent', 'CHECK_SAME(t * s, T(to.coeffs() * s));', doc=TGB)
E('t_op_s_mul', 'tangent', 'CHECK_SAME(s * t, T(to.coeffs() * s));', doc=TGB)
E('t_op_div_s', 'tangent', 'CHECK_SAME(t / s, T(to.coeffs() / s));', doc=TGB)
E('t_op_pluseq_t', 'tangent', 'CHECK_TRUE(&(t += u) == &t); CHECK_SAME(t, T(to.coeffs() + uo.coeffs()));', mut=True, doc=TGB)
E('t_op_pluseq_t_arg_owning', 'tangent', 't += uo; CHECK_SAME(t, T(to.coeffs() + uo.coeffs()));', mut=True, doc=TGB)
E('t_op_pluseq_t_this_owning', 'tangent', 'T z(to); z += u; CHECK_SAME(z, T(to.coeffs() + uo.coeffs()));', doc=TGB)
E('t_op_minuseq_t', 'tangent', 'CHECK_TRUE(&(t -= u) == &t); CHECK_SAME(t, T(to.coeffs() - uo.coeffs()));', mut=True, doc=TGB)
E('t_op_minuseq_t_arg_owning', 'tangent', 't -= uo; CHECK_SAME(t, T(to.coeffs() - uo.coeffs()));', mut=True, doc=TGB)
E('t_op_minuseq_t_this_owning', 'tangent', 'T z(to); z -= u; CHECK_SAME(z, T(to.coeffs() - uo.coeffs()));', doc=TGB)
E('t_op_pluseq_v', 'tangent', 't += tv; CHECK_SAME(t, T(to.coeffs() + tv));', mut=True, doc=TGB)
E('t_op_minuseq_v', 'tangent', 't -= tv; CHECK_SAME(t, T(to.coeffs() - tv));', mut=True, doc=TGB)
E('t_op_muleq_s', 'tangent', 't *= s; CHECK_SAME(t, T(to.coeffs() * s));', mut=True, doc=TGB)
E('t_op_diveq_s', 'tangent', 't /= s; CHECK_SAME(t, T(to.coeffs() / s));', mut=True, doc=TGB)
E('t_op_J_mul', 'tangent', 'J1 = to.rjac(); CHECK_SAME(J1 * t, T((J1 * to.coeffs()).eval()));', doc=TGB)
E('t_op_eq', 'tangent', 'CHECK_SAME(t == u, to.isApprox(uo)); CHECK_TRUE(t == to); CHECK_TRUE(to == t);', doc=TGB)
E('t_op_eq_v', 'tangent', 'CHECK_SAME(t == tv, to.isApprox(tv)); CHECK_TRUE(t == to.coeffs());', doc=TGB)
E('t_isApprox', 'tangent',
  'CHECK_SAME(t.isApprox(u), to.isApprox(uo)); CHECK_SAME(t.isApprox(u, eps), to.isApprox(uo, eps)); CHECK_TRUE(t.isApprox(to));'
  ' CHECK_TRUE(to.isApprox(t));', doc=TGB)
E('t_isApprox_v', 'tangent', 'CHECK_SAME(t.isApprox(tv, eps), to.isApprox(tv, eps)); CHECK_TRUE(t.isApprox(to.coeffs()));', doc=TGB)
E('t_stream_in', 'tangent', 't << uo.coeffs(); CHECK_SAME(t, uo);', mut=True, doc=TGB)
E('t_stream_out', 'tangent',
  'std::ostringstream a, b; a << t; b << to.coeffs().transpose(); CHECK_TRUE(a.str() == b.str());', doc=TGB)
E('t_setZero', 'tangent', 'CHECK_TRUE(&t.setZero() == &t); CHECK_SAME(t, T::Zero()); CHECK_TRUE(t.coeffs().isZero(S(0)));', mut=True, doc=TGB)
E('t_setRandom', 'tangent', 'CHECK_TRUE(&t.setRandom() == &t); CHECK_TRUE(t.coeffs().allFinite());', mut=True, doc=TGB)
E('t_Zero', 'tangent', 'CHECK_SAME(TK::Zero(), T(T::DataType::Zero())); CHECK_SAME(t.plus(TK::Zero()), to);', doc=TGB)
E('t_Random', 'tangent', 'T r = TK::Random(); CHECK_TRUE(r.coeffs().allFinite());', doc=TGB)
E('t_cast_float', 'tangent',
  'CHECK_SAME(t.template cast<float>(), to.template cast<float>()); CHECK_SAME(t.template cast<float>().coeffs(), to.coeffs().template cast<float>().eval());', doc=TGB)
E('t_cast_double', 'tangent',
  'CHECK_SAME(t.template cast<double>(), to.template cast<double>()); CHECK_SAME(t.template cast<double>().coeffs(), to.coeffs().template cast<double>().eval());', doc=TGB)
E('t_coeffs', 'tangent', 'CHECK_SAME(t.coeffs(), to.coeffs());', doc=TGB)
E('t_coeffs_write', 'tangent', 't.coeffs() = uo.coeffs(); CHECK_SAME(t, uo);', mut=True, doc=TGB)
E('t_data', 'tangent',
  'CHECK_TRUE(t.data() == t.coeffs().data()); CHECK_SAME(t.data()[T::RepSize - 1], to.data()[T::RepSize - 1]);', doc=TGB)
E('t_data_write', 'tangent', 't.data()[0] = uo.data()[0]; CHECK_SAME(t.coeffs()[0], uo.coeffs()[0]);', mut=True, doc=TGB)
E('t_index', 'tangent',
  'for (unsigned int i = 0; i < (unsigned int)T::RepSize; ++i) CHECK_SAME(t[i], to.coeffs()[i]);', doc=TGB)
E('t_index_write', 'tangent', 't[0] = uo[0]; CHECK_SAME(t.coeffs()[0], uo.coeffs()[0]);', mut=True, doc=TGB)
E('t_size', 'tangent', 'CHECK_SAME(t.size(), (unsigned int)T::RepSize);', doc=TGB)
E('t_static_props', 'tangent',
  'CHECK_TRUE(int(TK::DoF) == int(T::DoF)); CHECK_TRUE(int(TK::Dim) == int(T::Dim)); CHECK_TRUE(int(TK::RepSize) == int(T::RepSize));'
  ' CHECK_TRUE((std::is_same<typename TK::LieGroup, G>::value)); CHECK_TRUE((std::is_same<typename TK::Tangent, T>::value));', doc=TGB)
E('t_static_props_odr', 'tangent',
  'const int& dof = TK::DoF; const int& dim = TK::Dim; const int& rep = TK::RepSize;'
  ' CHECK_SAME(dof, int(T::DoF)); CHECK_SAME(dim, int(T::Dim)); CHECK_SAME(rep, int(T::RepSize));', doc=TGB)
E('t_copy_same_kind', 'tangent', 'TK z(t); CHECK_SAME(z, to);', doc=TGB)
E('t_ctor_owning_from', 'tangent', 'T z(t); CHECK_SAME(z, to); T w = t; CHECK_SAME(w, to);', doc='<Group>Tangent.h copy constructor')
E('t_ctor_owning_from_coeffs', 'tangent', 'T z(t.coeffs()); CHECK_SAME(z, to);', doc='<Group>Tangent.h')
E('t_assign_owning_from', 'tangent', 'T z; z = t; CHECK_SAME(z, to);', doc=TGB)
E('t_assign_map_from', 'tangent', 'Eigen::Map<T> m(bufT); m = t; CHECK_SAME(m, to); CHECK_SAME(bufT[0], to.coeffs()[0]);', doc=TGB)
E('t_assign_same_kind', 'tangent', 't = u; CHECK_SAME(t, uo);', mut=True, doc=TGB)
E('t_assign_from_owning', 'tangent', 't = uo; CHECK_SAME(t, uo);', mut=True, doc=TGB)
E('t_assign_from_map', 'tangent', 'Eigen::Map<T> m(bufT); t = m; CHECK_SAME(t, uo);', mut=True, doc=TGB)
E('t_assign_from_cmap', 'tangent', 'const Eigen::Map<const T> m(bufT); t = m; CHECK_SAME(t, uo);', mut=True, doc=TGB)
E('t_assign_from_eigen', 'tangent', 't = uo.coeffs(); CHECK_SAME(t, uo);', mut=True, doc=TGB)
E('t_assign_from_temporary', 'tangent', 't = -uo; CHECK_SAME(t, T(-uo.coeffs()));', mut=True, doc=TGB)
E('t_move_from', 'tangent', 'T tmp(t); T z(std::move(tmp)); CHECK_SAME(z, to); T w; w = std::move(z); CHECK_SAME(w, to);', doc='<Group>Tangent.h move constructor / assignment')
E('t_move_into', 'tangent', 'T tmp(uo); t = std::move(tmp); CHECK_SAME(t, uo);', mut=True, doc=TGB)
# per-tangent accessors
E('t_x', 'tangent', 'CHECK_SAME(t.x(), to.x());', groups=('SE2', 'SO3'), doc='<Group>Tangent_base.h')
E('t_y', 'tangent', 'CHECK_SAME(t.y(), to.y());', groups=('SE2', 'SO3'), doc='<Group>Tangent_base.h')
E('t_z', 'tangent', 'CHECK_SAME(t.z(), to.z());', groups=('SO3',), doc='SO3Tangent_base.h')
E('t_angle', 'tangent', 'CHECK_SAME(t.angle(), to.angle());', groups=('SO2', 'SE2'), doc='<Group>Tangent_base.h')
E('t_lin', 'tangent', 'CHECK_SAME(t.lin(), to.lin());', groups=('SE3', 'SE_2_3', 'SGal3'), doc='<Group>Tangent_base.h')
E('t_lin_write', 'tangent', 't.lin() = uo.lin(); CHECK_SAME(t.lin(), uo.lin());', mut=True,
  groups=('SE3', 'SE_2_3', 'SGal3'), doc='<Group>Tangent_base.h')
E('t_ang', 'tangent', 'CHECK_SAME(t.ang(), to.ang());', groups=('SO3', 'SE3', 'SE_2_3', 'SGal3'), doc='<Group>Tangent_base.h')
E('t_ang_write', 'tangent', 't.ang() = uo.ang(); CHECK_SAME(t.ang(), uo.ang());', mut=True,
  groups=('SO3', 'SE3', 'SE_2_3', 'SGal3'), doc='<Group>Tangent_base.h')
E('t_lin2', 'tangent', 'CHECK_SAME(t.lin2(), to.lin2());', groups=('SE_2_3', 'SGal3'), doc='<Group>Tangent_base.h')
E('t_lin2_write', 'tangent', 't.lin2() = uo.lin2(); CHECK_SAME(t.lin2(), uo.lin2());', mut=True,
  groups=('SE_2_3', 'SGal3'), doc='<Group>Tangent_base.h')
E('t_t', 'tangent', 'CHECK_SAME(t.t(), to.t());', groups=('SGal3',), doc='SGal3Tangent_base.h')
E('t_element', 'tangent', 'CHECK_SAME(t.template element<{I}>(), to.template element<{I}>());'
  ' CHECK_SAME(t.template element<{I}>().exp(), to.template element<{I}>().exp());',
  groups=('Bundle',), per_element=True, doc='BundleTangent_base.h')
E('t_element_write', 'tangent',
  't.template element<{I}>() = uo.template element<{I}>(); CHECK_SAME(t.template element<{I}>(), uo.template element<{I}>());',
  mut=True, groups=('Bundle',), per_element=True, doc='BundleTangent_base.h')
E('t_BundleSize', 'tangent', 'CHECK_TRUE(std::size_t(TK::BundleSize) == std::size_t({N}));', groups=('Bundle',), doc='BundleTangent_base.h')
E('t_bundle_ctor_elements', 'tangent', 'T z({TELEMS}); CHECK_SAME(z, to);', groups=('Bundle',), doc='BundleTangent.h')

# ---------------------------------------------------------------------------------------------
# free functions (manif/functions.h)
# ---------------------------------------------------------------------------------------------
FN = 'functions.h'
E('f_coeffs_g', 'free', 'CHECK_SAME(manif::coeffs(X), Xo.coeffs());', doc=FN)
E('f_coeffs_t', 'free', 'CHECK_SAME(manif::coeffs(t), to.coeffs());', doc=FN)
E('f_data_g', 'free', 'CHECK_TRUE(manif::data(X) == X.data());', doc=FN)
E('f_data_t', 'free', 'CHECK_TRUE(manif::data(t) == t.data());', doc=FN)
E('f_data_g_write', 'free', 'manif::data(X)[0] = Yo.data()[0]; CHECK_SAME(X.coeffs()[0], Yo.coeffs()[0]);', mut=True, doc=FN)
E('f_data_t_write', 'free', 'manif::data(t)[0] = uo.data()[0]; CHECK_SAME(t.coeffs()[0], uo.coeffs()[0]);', mut=True, doc=FN)
E('f_identity', 'free', 'manif::identity(X); CHECK_SAME(X, G::Identity());', mut=True, doc=FN)
E('f_Identity', 'free', 'CHECK_SAME(manif::Identity<G>(), G::Identity()); CHECK_SAME(X.compose(manif::Identity<G>()), Xo.compose(G::Identity()));', doc=FN)
E('f_zero', 'free', 'manif::zero(t); CHECK_SAME(t, T::Zero());', mut=True, doc=FN)
E('f_Zero', 'free', 'CHECK_SAME(manif::Zero<T>(), T::Zero()); CHECK_SAME(t.plus(manif::Zero<T>()), to);', doc=FN)
E('f_random_g', 'free', 'manif::random(X); CHECK_TRUE(X.coeffs().allFinite()); CHECK_TRUE(X.isApprox(X));', mut=True, doc=FN)
E('f_random_t', 'free', 'manif::random(t); CHECK_TRUE(t.coeffs().allFinite());', mut=True, doc=FN)
E('f_Random_g', 'free', 'G R = manif::Random<G>(); CHECK_TRUE(R.coeffs().allFinite()); CHECK_TRUE(X.compose(R).coeffs().allFinite());', doc=FN)
E('f_Random_t', 'free', 'T r = manif::Random<T>(); CHECK_TRUE(r.coeffs().allFinite()); CHECK_TRUE(t.plus(r).coeffs().allFinite());', doc=FN)
E('f_inverse', 'free', 'CHECK_SAME(manif::inverse(X), Xo.inverse());', doc=FN)
E('f_inverse_J', 'free', 'CHECK_SAME(manif::inverse(X, J1), Xo.inverse(J2)); CHECK_SAME(J1, J2);', doc=FN)
for _op, _canon in (('rplus', 'rplus'), ('lplus', 'lplus'), ('plus', 'rplus')):
    E('f_%s' % _op, 'free', 'CHECK_SAME(manif::%s(X, t), Xo.%s(to));' % (_op, _canon), doc=FN)
    E('f_%s_J' % _op, 'free',
      'CHECK_SAME(manif::%s(X, t, J1, J2), Xo.%s(to, J3, J4)); CHECK_SAME(J1, J3); CHECK_SAME(J2, J4);' % (_op, _canon), doc=FN)
    E('f_%s_mixed' % _op, 'free',
      'CHECK_SAME(manif::%s(X, to), Xo.%s(to)); CHECK_SAME(manif::%s(Xo, t), Xo.%s(to));' % (_op, _canon, _op, _canon), doc=FN)
for _op, _canon in (('rminus', 'rminus'), ('lminus', 'lminus'), ('minus', 'rminus'), ('compose', 'compose'), ('between', 'between')):
    E('f_%s' % _op, 'free', 'CHECK_SAME(manif::%s(X, Y), Xo.%s(Yo));' % (_op, _canon), doc=FN)
    E('f_%s_J' % _op, 'free',
      'CHECK_SAME(manif::%s(X, Y, J1, J2), Xo.%s(Yo, J3, J4)); CHECK_SAME(J1, J3); CHECK_SAME(J2, J4);' % (_op, _canon), doc=FN)
    E('f_%s_mixed' % _op, 'free',
      'CHECK_SAME(manif::%s(X, Yo), Xo.%s(Yo)); CHECK_SAME(manif::%s(Xo, Y), Xo.%s(Yo));' % (_op, _canon, _op, _canon), doc=FN)
E('f_lift', 'free', 'CHECK_SAME(manif::lift(X), Xo.log());', doc=FN)
E('f_lift_J', 'free', 'CHECK_SAME(manif::lift(X, J1), Xo.log(J2)); CHECK_SAME(J1, J2);', doc=FN)
E('f_log', 'free', 'CHECK_SAME(manif::log(X), Xo.log());', doc=FN)
E('f_log_J', 'free', 'CHECK_SAME(manif::log(X, J1), Xo.log(J2)); CHECK_SAME(J1, J2);', doc=FN)
E('f_retract', 'free', 'CHECK_SAME(manif::retract(t), to.exp());', doc=FN)
E('f_retract_J', 'free', 'CHECK_SAME(manif::retract(t, J1), to.exp(J2)); CHECK_SAME(J1, J2);', doc=FN)
E('f_exp', 'free', 'CHECK_SAME(manif::exp(t), to.exp());', doc=FN)
E('f_exp_J', 'free', 'CHECK_SAME(manif::exp(t, J1), to.exp(J2)); CHECK_SAME(J1, J2);', doc=FN)
E('f_act', 'free', 'CHECK_SAME(manif::act(X, v), Xo.act(v));', doc=FN)
E('f_act_J', 'free',
  'CHECK_SAME(manif::act(X, v, JA1, JV1), Xo.act(v, JA2, JV2)); CHECK_SAME(JA1, JA2); CHECK_SAME(JV1, JV2);', doc=FN)

# ---------------------------------------------------------------------------------------------
# algorithms (manif/algorithms/*.h)
# ---------------------------------------------------------------------------------------------
IP = 'algorithms/interpolation.h, docs/pages/cpp/Interpolation.md'
E('a_interpolate_default', 'algorithm',
  'CHECK_SAME(manif::interpolate(X, Y, s), Xo.rplus(Yo.rminus(Xo) * s));', doc=IP)
E('a_interpolate_SLERP', 'algorithm',
  'CHECK_SAME(manif::interpolate(X, Y, s, manif::INTERP_METHOD::SLERP), Xo.rplus(Yo.rminus(Xo) * s));', doc=IP)
E('a_interpolate_CUBIC', 'algorithm',
  'CHECK_SAME(manif::interpolate(X, Y, s, manif::INTERP_METHOD::CUBIC), manif::interpolate_cubic(Xo, Yo, s));', doc=IP)
E('a_interpolate_CUBIC_tangents', 'algorithm',
  'CHECK_SAME(manif::interpolate(X, Y, s, manif::INTERP_METHOD::CUBIC, t, u), manif::interpolate_cubic(Xo, Yo, s, to, uo));', doc=IP)
E('a_interpolate_CNSMOOTH', 'algorithm',
  'CHECK_SAME(manif::interpolate(X, Y, s, manif::INTERP_METHOD::CNSMOOTH), manif::interpolate_smooth(Xo, Yo, s, 3));', doc=IP)
E('a_interpolate_CNSMOOTH_tangents', 'algorithm',
  'CHECK_SAME(manif::interpolate(X, Y, s, manif::INTERP_METHOD::CNSMOOTH, t, u), manif::interpolate_smooth(Xo, Yo, s, 3, to, uo));', doc=IP)
E('a_interpolate_slerp', 'algorithm',
  'CHECK_SAME(manif::interpolate_slerp(X, Y, s), Xo.rplus(Yo.rminus(Xo) * s));', doc=IP)
E('a_interpolate_cubic', 'algorithm',
  'CHECK_SAME(manif::interpolate_cubic(X, Y, s), manif::interpolate_cubic(Xo, Yo, s));'
  ' CHECK_SAME(manif::interpolate_cubic(X, Y, s, t, u), manif::interpolate_cubic(Xo, Yo, s, to, uo));', doc=IP)
E('a_interpolate_smooth', 'algorithm',
  'CHECK_SAME(manif::interpolate_smooth(X, Y, s, 2), manif::interpolate_smooth(Xo, Yo, s, 2));'
  ' CHECK_SAME(manif::interpolate_smooth(X, Y, s, 3, t, u), manif::interpolate_smooth(Xo, Yo, s, 3, to, uo));', doc=IP)
E('a_smoothing_phi', 'algorithm',
  'for (std::size_t d = 1; d <= 4; ++d) { CHECK_SAME(manif::smoothing_phi(S(0), d), S(0)); CHECK_SAME(manif::smoothing_phi(S(1), d), S(1));'
  ' CHECK_SAME(manif::smoothing_phi(s, d), manif::smoothing_phi(S(s), d)); }', doc=IP)   # range / monotonicity of phi is C15's business, not C19's
_PTS = ('std::vector<G> P, Po; for (int k = 0; k < 7; ++k) {'
        ' P.push_back(X.rplus(t * S(0.05 * k) + u * S(0.03 * (k % 3))));'
        ' Po.push_back(Xo.rplus(to * S(0.05 * k) + uo * S(0.03 * (k % 3)))); } ')
AV = 'algorithms/average.h'
for _a in ('average_biinvariant', 'average', 'average_frechet_left', 'average_frechet_right'):
    E('a_%s' % _a, 'algorithm',
      _PTS + 'G A = manif::%s(P); CHECK_SAME(A, manif::%s(Po)); CHECK_TRUE(A.coeffs().allFinite());'
      ' CHECK_SAME(manif::%s(P, eps, 5), manif::%s(Po, eps, 5));' % (_a, _a, _a, _a), doc=AV)
E('a_average_biinvariant_list', 'algorithm',
  _PTS + 'std::list<G> L(P.begin(), P.end()); CHECK_SAME(manif::average_biinvariant(L), manif::average_biinvariant(Po));', doc=AV)
E('a_decasteljau', 'algorithm',
  _PTS + 'std::vector<G> C = manif::decasteljau(P, 3, 2); CHECK_SAME(C, manif::decasteljau(Po, 3, 2, false));'
  ' CHECK_TRUE(C.size() > 0);', doc='algorithms/decasteljau.h')
E('a_decasteljau_degree2', 'algorithm',
  _PTS + 'CHECK_SAME(manif::decasteljau(P, 2, 3, false), manif::decasteljau(Po, 2, 3));', doc='algorithms/decasteljau.h')


def check_table():
    names = [e['name'] for e in ENTRIES]
    assert len(names) == len(set(names)), 'duplicate entry names'
    for e in ENTRIES:
        assert e['cat'] in ('group', 'tangent', 'free', 'algorithm')
        if e['per_element']:
            assert e['groups'] == {'Bundle'}


check_table()

if __name__ == '__main__':
    import collections
    c = collections.Counter(e['cat'] for e in ENTRIES)
    print(len(ENTRIES), 'entries', dict(c))
