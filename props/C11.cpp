// C11 -- a Bundle is the direct product of its element groups.
#include "vf_manif.h"
#include <cstdlib>
#include <cstring>
#include <utility>

using namespace vf;
using namespace vfcfg;

VF_STD_PROPERTY("C11", "layout has >= 2 elements with different DoF (or is a single-element bundle: counted trivial) and the input is non-identity in every element; distinct = distinct input bit patterns")

namespace vfp {

static const int NB = (int)GroupT::BundleSize;
static const int Dof = GroupT::DoF, Rep = GroupT::RepSize, Dim = GroupT::Dim;
using Jac = typename GroupT::Jacobian;

vf::Shape shape() {
  Shape sh;
  sh.n_elems = 2;
  sh.n_tangents = 2;
  sh.n_points = 1;
  sh.tp = TP_INJ;
  sh.ep = EP_MODERATE;
  sh.ints = {{0, Dof - 1}};
  sh.is_float = kIsFloat;
  return sh;
}

template <class F, int... I> static void for_each_impl(F&& f, std::integer_sequence<int, I...>) {
  (f(std::integral_constant<int, I>{}), ...);
}
template <class F> static void for_each_elem(F&& f) { for_each_impl(f, std::make_integer_sequence<int, NB>{}); }
template <class F, int... I> static void for_each_impl_rev(F&& f, std::integer_sequence<int, I...>) {
  (f(std::integral_constant<int, NB - 1 - I>{}), ...);
}

static double rel1(double a, double b) {
  if (a == b) return 0;
  if (!(a == a) || !(b == b)) return INFINITY;
  return std::fabs(a - b) / std::max(std::fabs(a), std::fabs(b));
}
struct Cmp {
  Chk& k;
  long bitident = 0, total = 0;
  explicit Cmp(Chk& kk) : k(kk) {}
  template <class A, class B> void vec(const std::string& name, const A& big, int off, const B& small) {
    double w = 0;
    for (int i = 0; i < small.size(); ++i) { w = std::max(w, rel1((double)big(off + i), (double)small(i))); ++total; if (big(off + i) == small(i)) ++bitident; }
    k.bound(name, w, 8 * kU, name + ": bundle result differs from the element's own result");
  }
  // matrices: relative to the largest entry of the block (the generic bundle-level chain rule multiplies
  // full block-diagonal matrices, so single entries that cancel may differ by more than a few ulps of
  // themselves); 64 u of the block magnitude
  template <class A, class B> void blk(const std::string& name, const A& big, int ro, int co, const B& small) {
    double w = 0, m = 0;
    for (int i = 0; i < small.rows(); ++i) for (int j = 0; j < small.cols(); ++j) m = std::max(m, std::fabs((double)small(i, j)));
    for (int i = 0; i < small.rows(); ++i) for (int j = 0; j < small.cols(); ++j) {
      const double a = (double)big(ro + i, co + j), b = (double)small(i, j);
      double d = (a == b) ? 0 : std::fabs(a - b) / std::max(m, 1e-300);
      if (!(a == a) || !(b == b)) d = (a == a || b == b) ? INFINITY : 0;
      w = std::max(w, d); ++total; if (a == b) ++bitident;
    }
    k.bound(name, w, 64 * kU, name + ": bundle block differs from the element's own matrix");
  }
};

// every entry outside the diagonal blocks must be an exact zero (not NaN, not tiny)
template <class M> static bool offdiag_zero(const M& J, const std::vector<int>& roff, const std::vector<int>& rsz,
                                            const std::vector<int>& coff, const std::vector<int>& csz) {
  for (int r = 0; r < J.rows(); ++r) for (int c = 0; c < J.cols(); ++c) {
    bool in = false;
    for (size_t b = 0; b < roff.size(); ++b)
      if (r >= roff[b] && r < roff[b] + rsz[b] && c >= coff[b] && c < coff[b] + csz[b]) in = true;
    if (in) continue;
    const Scalar x = J(r, c);
    if (!(x == Scalar(0))) return false;   // -0.0 (e.g. from J = -Adj) is an exact zero too
  }
  return true;
}

vf::Outcome run_case(const vf::Case& c, const vf::RunCtx& ctx) {
  const Spec s = spec();
  Chk k(ctx);
  Cmp cmp(k);
  const double* p = c.reals.data();
  try {
    const GroupT X = make_elem<GroupT>(p), Y = make_elem<GroupT>(p + Rep);
    const TangentT T = make_tan<GroupT>(p + 2 * Rep), U = make_tan<GroupT>(p + 2 * Rep + Dof);
    const typename GroupT::Vector pt = make_pt<GroupT>(p + 2 * Rep + 2 * Dof);
    std::vector<int> doff, dsz, roff, rsz, moff, msz, aoff, asz, toff, tsz;
    for (int b = 0; b < NB; ++b) {
      doff.push_back(s.dof_off(b)); dsz.push_back(s.e[b].dof()); roff.push_back(s.rep_off(b)); rsz.push_back(s.e[b].rep());
      moff.push_back(s.dim_off(b)); msz.push_back(s.e[b].dim()); aoff.push_back(s.alg_off(b)); asz.push_back(s.e[b].alg());
      toff.push_back(s.tra_off(b)); tsz.push_back(s.e[b].tra());
    }
    k.require("sizes", Dof == s.dof() && Rep == s.rep() && Dim == s.dim(), "Bundle DoF/RepSize/Dim are not the sums of the elements'");

    // bundle-level results, Jacobian outputs pre-filled with NaN
    auto nanJ = []() { Jac J; J.setConstant(std::numeric_limits<Scalar>::quiet_NaN()); return J; };
    Jac Jinv = nanJ(), Jlog = nanJ(), Jexp = nanJ(), Jca = nanJ(), Jcb = nanJ(), Jba = nanJ(), Jbb = nanJ(), Jrpm = nanJ(), Jrpt = nanJ(),
        Jlpm = nanJ(), Jlpt = nanJ(), Jrma = nanJ(), Jrmb = nanJ(), Jlma = nanJ(), Jlmb = nanJ();
    Eigen::Matrix<Scalar, GroupT::Dim, GroupT::DoF> Jam; Jam.setConstant(std::numeric_limits<Scalar>::quiet_NaN());
    Eigen::Matrix<Scalar, GroupT::Dim, GroupT::Dim> Jav; Jav.setConstant(std::numeric_limits<Scalar>::quiet_NaN());
    const GroupT Xinv = X.inverse(Jinv);
    const TangentT Xlog = X.log(Jlog);
    const GroupT Texp = T.exp(Jexp);
    const GroupT XY = X.compose(Y, Jca, Jcb);
    const GroupT Xb = X.between(Y, Jba, Jbb);
    const GroupT Xrp = X.rplus(T, Jrpm, Jrpt);
    const GroupT Xlp = X.lplus(T, Jlpm, Jlpt);
    const TangentT Xrm = X.rminus(Y, Jrma, Jrmb);
    const TangentT Xlm = X.lminus(Y, Jlma, Jlmb);
    const typename GroupT::Vector Xact = X.act(pt, Jam, Jav);
    const Jac Adj = X.adj(), Jr = T.rjac(), Jl = T.ljac(), Jri = T.rjacinv(), Jli = T.ljacinv(), sad = T.smallAdj();
    const typename TangentT::LieAlg H = T.hat();
    const typename TangentT::InnerWeightsMatrix W = TangentT::InnerWeights();
    const typename GroupT::Transformation Tr = X.transform();
    const TangentT br = T.bracket(U);
    const Scalar ip = T.inner(U);
    Scalar ip_sum = Scalar(0);

    // the same Jacobians requested one at a time (outputs again pre-filled with NaN): identical bits, in particular
    // exact zeros outside the diagonal blocks whichever other output is requested
    {
      using Opt = typename GroupT::OptJacobianRef;
      auto same = [&](const Jac& a, const Jac& b) { return std::memcmp(a.data(), b.data(), sizeof(Scalar) * a.size()) == 0; };
      auto single = [&](const char* name, const Jac& both_a, const Jac& both_b, auto call) {
        Jac oa = nanJ(), ob = nanJ();
        call(Opt(oa), Opt{});
        call(Opt{}, Opt(ob));
        k.require(std::string("single-output:") + name + "/first", same(oa, both_a), std::string(name) + ": first Jacobian differs (or is not fully written) when requested alone");
        k.require(std::string("single-output:") + name + "/second", same(ob, both_b), std::string(name) + ": second Jacobian differs (or is not fully written) when requested alone");
      };
      single("compose", Jca, Jcb, [&](Opt a, Opt b) { X.compose(Y, a, b); });
      single("between", Jba, Jbb, [&](Opt a, Opt b) { X.between(Y, a, b); });
      single("rplus", Jrpm, Jrpt, [&](Opt a, Opt b) { X.rplus(T, a, b); });
      single("lplus", Jlpm, Jlpt, [&](Opt a, Opt b) { X.lplus(T, a, b); });
      single("rminus", Jrma, Jrmb, [&](Opt a, Opt b) { X.rminus(Y, a, b); });
      single("lminus", Jlma, Jlmb, [&](Opt a, Opt b) { X.lminus(Y, a, b); });
      {
        Eigen::Matrix<Scalar, GroupT::Dim, GroupT::DoF> m1; m1.setConstant(std::numeric_limits<Scalar>::quiet_NaN());
        Eigen::Matrix<Scalar, GroupT::Dim, GroupT::Dim> v1; v1.setConstant(std::numeric_limits<Scalar>::quiet_NaN());
        X.act(pt, m1, tl::optional<Eigen::Ref<Eigen::Matrix<Scalar, GroupT::Dim, GroupT::Dim>>>{});
        X.act(pt, tl::optional<Eigen::Ref<Eigen::Matrix<Scalar, GroupT::Dim, GroupT::DoF>>>{}, v1);
        k.require("single-output:act/m", std::memcmp(m1.data(), Jam.data(), sizeof(Scalar) * m1.size()) == 0, "act: J_m differs when requested alone");
        k.require("single-output:act/v", std::memcmp(v1.data(), Jav.data(), sizeof(Scalar) * v1.size()) == 0, "act: J_v differs when requested alone");
      }
    }

    // outputs bound to a block of a larger (column-major, hence strided) matrix: the block receives exactly the
    // contiguous result and nothing outside it is touched
    {
      using Big = Eigen::Matrix<Scalar, GroupT::DoF + 3, GroupT::DoF + 2>;
      const Scalar pat = Scalar(-77.25);
      auto blockcheck = [&](const char* name, const Jac& want, auto call) {
        Big big; big.setConstant(pat);
        call(big.template block<GroupT::DoF, GroupT::DoF>(2, 1));
        bool inside = true, outside = true;
        for (int r = 0; r < big.rows(); ++r) for (int c2 = 0; c2 < big.cols(); ++c2) {
          const bool in = r >= 2 && r < 2 + Dof && c2 >= 1 && c2 < 1 + Dof;
          if (in) { const Scalar a = big(r, c2), b = want(r - 2, c2 - 1); if (std::memcmp(&a, &b, sizeof(Scalar)) != 0) inside = false; }
          else if (!(big(r, c2) == pat)) outside = false;
        }
        k.require(std::string("block-bound:") + name, inside, std::string(name) + ": Jacobian written into a block of a larger matrix differs from the contiguous one");
        k.require(std::string("block-bound(outside):") + name, outside, std::string(name) + ": wrote outside the block the output was bound to");
      };
      blockcheck("inverse", Jinv, [&](Eigen::Ref<Jac> J) { X.inverse(J); });
      blockcheck("log", Jlog, [&](Eigen::Ref<Jac> J) { X.log(J); });
      blockcheck("exp", Jexp, [&](Eigen::Ref<Jac> J) { T.exp(J); });
      blockcheck("compose/a", Jca, [&](Eigen::Ref<Jac> J) { X.compose(Y, J, typename GroupT::OptJacobianRef{}); });
      blockcheck("compose/b", Jcb, [&](Eigen::Ref<Jac> J) { X.compose(Y, typename GroupT::OptJacobianRef{}, J); });
      blockcheck("rminus/a", Jrma, [&](Eigen::Ref<Jac> J) { X.rminus(Y, J, typename GroupT::OptJacobianRef{}); });
      blockcheck("rplus/t", Jrpt, [&](Eigen::Ref<Jac> J) { X.rplus(T, typename GroupT::OptJacobianRef{}, J); });
    }

    // block-diagonal structure with exact zeros elsewhere
    const std::pair<const char*, const Jac*> jacs[] = {
        {"inverse", &Jinv}, {"log", &Jlog}, {"exp", &Jexp}, {"compose/a", &Jca}, {"compose/b", &Jcb}, {"between/a", &Jba}, {"between/b", &Jbb},
        {"rplus/m", &Jrpm}, {"rplus/t", &Jrpt}, {"lplus/m", &Jlpm}, {"lplus/t", &Jlpt}, {"rminus/a", &Jrma}, {"rminus/b", &Jrmb},
        {"lminus/a", &Jlma}, {"lminus/b", &Jlmb}, {"adj", &Adj}, {"rjac", &Jr}, {"ljac", &Jl}, {"rjacinv", &Jri}, {"ljacinv", &Jli},
        {"smallAdj", &sad}, {"InnerWeights", &W}};
    for (auto& j : jacs)
      k.require(std::string("offdiag0:") + j.first, offdiag_zero(*j.second, doff, dsz, doff, dsz), std::string(j.first) + ": entry outside the diagonal blocks is not an exact zero");
    k.require("offdiag0:act/m", offdiag_zero(Jam, moff, msz, doff, dsz), "act J_m: entry outside the diagonal blocks is not an exact zero");
    k.require("offdiag0:act/v", offdiag_zero(Jav, moff, msz, moff, msz), "act J_v: entry outside the diagonal blocks is not an exact zero");
    k.require("offdiag0:hat", offdiag_zero(H, aoff, asz, aoff, asz), "hat: entry outside the diagonal blocks is not an exact zero");
    k.require("offdiag0:transform", offdiag_zero(Tr, toff, tsz, toff, tsz), "transform: entry outside the diagonal blocks is not an exact zero");

    // element<i>() aliases exactly the i-th coefficient slice
    GroupT Xw = X;
    for_each_elem([&](auto Ic) {
      constexpr int I = decltype(Ic)::value;
      using E = typename GroupT::template Element<I>;
      using ET = typename E::Tangent;
      const int ro = s.rep_off(I), dofo = s.dof_off(I), dimo = s.dim_off(I), ao = s.alg_off(I), to = s.tra_off(I);
      const std::string n = "[" + std::to_string(I) + "]";
      const auto xview = X.template element<I>();   // Eigen::Map<const Element>
      k.require("element.offset" + n, xview.data() - X.data() == ro, "element<i>().data() - data() is not the prefix sum of RepSizes");
      k.require("element.sizes" + n, E::RepSize == s.e[I].rep() && E::DoF == s.e[I].dof() && E::Dim == s.e[I].dim(), "element sizes");
      // stand-alone element objects from the coefficient slices (offsets computed by the harness)
      const E xe(typename E::DataType(X.coeffs().template segment<E::RepSize>(ro)));
      const E ye(typename E::DataType(Y.coeffs().template segment<E::RepSize>(ro)));
      const ET te(typename ET::DataType(T.coeffs().template segment<E::DoF>(dofo)));
      const ET ue(typename ET::DataType(U.coeffs().template segment<E::DoF>(dofo)));
      const typename E::Vector pe = pt.template segment<E::Dim>(dimo);
      typename E::Jacobian ja, jb;
      cmp.vec("elem==slice" + n, X.coeffs(), ro, xview.coeffs());
      cmp.vec("inverse" + n, Xinv.coeffs(), ro, xe.inverse(ja).coeffs()); cmp.blk("J:inverse" + n, Jinv, dofo, dofo, ja);
      cmp.vec("log" + n, Xlog.coeffs(), dofo, xe.log(ja).coeffs()); cmp.blk("J:log" + n, Jlog, dofo, dofo, ja);
      cmp.vec("exp" + n, Texp.coeffs(), ro, te.exp(ja).coeffs()); cmp.blk("J:exp" + n, Jexp, dofo, dofo, ja);
      cmp.vec("compose" + n, XY.coeffs(), ro, xe.compose(ye, ja, jb).coeffs()); cmp.blk("J:compose/a" + n, Jca, dofo, dofo, ja); cmp.blk("J:compose/b" + n, Jcb, dofo, dofo, jb);
      cmp.vec("between" + n, Xb.coeffs(), ro, xe.between(ye, ja, jb).coeffs()); cmp.blk("J:between/a" + n, Jba, dofo, dofo, ja); cmp.blk("J:between/b" + n, Jbb, dofo, dofo, jb);
      cmp.vec("rplus" + n, Xrp.coeffs(), ro, xe.rplus(te, ja, jb).coeffs()); cmp.blk("J:rplus/m" + n, Jrpm, dofo, dofo, ja); cmp.blk("J:rplus/t" + n, Jrpt, dofo, dofo, jb);
      cmp.vec("lplus" + n, Xlp.coeffs(), ro, xe.lplus(te, ja, jb).coeffs()); cmp.blk("J:lplus/m" + n, Jlpm, dofo, dofo, ja); cmp.blk("J:lplus/t" + n, Jlpt, dofo, dofo, jb);
      cmp.vec("rminus" + n, Xrm.coeffs(), dofo, xe.rminus(ye, ja, jb).coeffs()); cmp.blk("J:rminus/a" + n, Jrma, dofo, dofo, ja); cmp.blk("J:rminus/b" + n, Jrmb, dofo, dofo, jb);
      cmp.vec("lminus" + n, Xlm.coeffs(), dofo, xe.lminus(ye, ja, jb).coeffs()); cmp.blk("J:lminus/a" + n, Jlma, dofo, dofo, ja); cmp.blk("J:lminus/b" + n, Jlmb, dofo, dofo, jb);
      {
        Eigen::Matrix<Scalar, E::Dim, E::DoF> jm; Eigen::Matrix<Scalar, E::Dim, E::Dim> jv;
        cmp.vec("act" + n, Xact, dimo, xe.act(pe, jm, jv)); cmp.blk("J:act/m" + n, Jam, dimo, dofo, jm); cmp.blk("J:act/v" + n, Jav, dimo, dimo, jv);
      }
      cmp.blk("adj" + n, Adj, dofo, dofo, xe.adj());
      cmp.blk("rjac" + n, Jr, dofo, dofo, te.rjac()); cmp.blk("ljac" + n, Jl, dofo, dofo, te.ljac());
      cmp.blk("rjacinv" + n, Jri, dofo, dofo, te.rjacinv()); cmp.blk("ljacinv" + n, Jli, dofo, dofo, te.ljacinv());
      cmp.blk("smallAdj" + n, sad, dofo, dofo, te.smallAdj());
      cmp.blk("hat" + n, H, ao, ao, te.hat());
      cmp.blk("InnerWeights" + n, W, dofo, dofo, ET::InnerWeights());
      cmp.blk("transform" + n, Tr, to, to, xe.transform());
      cmp.vec("bracket" + n, br.coeffs(), dofo, te.bracket(ue).coeffs());
      ip_sum += te.inner(ue);
      // Vee of the bundle hat recovers the element tangent
      cmp.vec("Vee" + n, TangentT::Vee(H).coeffs(), dofo, te.coeffs());
      // Generator(i): the element's generator at its block, zero elsewhere
      {
        const int gi = (int)c.ints[0];
        const typename TangentT::LieAlg G = TangentT::Generator(gi);
        if (gi >= dofo && gi < dofo + E::DoF) {
          cmp.blk("Generator" + n, G, ao, ao, ET::Generator(gi - dofo));
          typename TangentT::LieAlg Gz = G;
          Gz.template block<ET::LieAlg::RowsAtCompileTime, ET::LieAlg::RowsAtCompileTime>(ao, ao).setZero();
          k.require("Generator.support" + n, Gz.isZero(0), "Generator(i) has entries outside the block of the element owning index i");
        }
      }
      // a write through element<i>() changes exactly that slice
      {
        GroupT Z = X;
        Z.template element<I>() = ye;
        bool ok = true;
        for (int q = 0; q < Rep; ++q) {
          const bool inside = q >= ro && q < ro + E::RepSize;
          const Scalar want = inside ? Y.coeffs()(q) : X.coeffs()(q);
          if (std::memcmp(&Z.coeffs()(q), &want, sizeof(Scalar)) != 0) ok = false;
        }
        k.require("element.write" + n, ok, "writing through element<i>() changed coefficients outside the element (or not the element)");
      }
      (void)Xw;
    });
    {
      Eigen::Matrix<Scalar, 1, 1> a, b; a(0) = ip; b(0) = ip_sum;
      double sc = 0;
      for (int i = 0; i < Dof; ++i) sc += 2 * std::fabs((double)T.coeffs()(i) * (double)U.coeffs()(i));
      k.bound("inner=sum", std::fabs((double)ip - (double)ip_sum) / std::max(sc, 1e-300), 64 * kU, "inner product of the bundle is not the sum of the elements' inner products");
    }
    // Random() is the elements' Random() placed at their offsets: with the same std::rand() state the bundle draw must
    // reproduce the element draws (the evaluation order of the pack expansion is unspecified: first-to-last or last-to-first)
    {
      const unsigned sd = (unsigned)(c.ints[0] * 7919 + 13);
      std::srand(sd);
      const GroupT Rb = GroupT::Random();
      bool match = false;
      for (int order = 0; order < 2 && !match; ++order) {
        std::srand(sd);
        typename GroupT::DataType d;
        auto draw = [&](auto Ic) {
          constexpr int I = decltype(Ic)::value;
          using E = typename GroupT::template Element<I>;
          d.template segment<E::RepSize>(s.rep_off(I)) = E::Random().coeffs();
        };
        if (order == 0) for_each_elem(draw);
        else for_each_impl_rev(draw, std::make_integer_sequence<int, NB>{});
        match = std::memcmp(d.data(), Rb.data(), sizeof(Scalar) * Rep) == 0;
      }
      k.require("Random=elementwise", match, "Bundle::Random() is not the elements' Random() for the same random-number state");
    }
    // the same on the tangent side: BundleTangent::Random() / setRandom() are the element tangents' Random() at their offsets
    {
      const unsigned sd = (unsigned)(c.ints[0] * 104729 + 7);
      for (int via = 0; via < 2; ++via) {
        std::srand(sd);
        TangentT Tb; if (via == 0) Tb = TangentT::Random(); else { Tb.setZero(); Tb.setRandom(); }
        bool match = false;
        for (int order = 0; order < 2 && !match; ++order) {
          std::srand(sd);
          typename TangentT::DataType d;
          auto draw = [&](auto Ic) {
            constexpr int I = decltype(Ic)::value;
            using E = typename TangentT::template Element<I>;
            d.template segment<E::DoF>(s.dof_off(I)) = E::Random().coeffs();
          };
          if (order == 0) for_each_elem(draw);
          else for_each_impl_rev(draw, std::make_integer_sequence<int, NB>{});
          match = std::memcmp(d.data(), Tb.data(), sizeof(Scalar) * Dof) == 0;
        }
        k.require(via == 0 ? "tangent Random=elementwise" : "tangent setRandom=elementwise", match,
                  "BundleTangent::Random()/setRandom() is not the element tangents' Random() for the same random-number state");
      }
    }
    // Random(): every element valid
    {
      const GroupT Rn = GroupT::Random();
      k.bound("Random.valid", (double)rot_norm_dev(s, toVL(Rn.coeffs())), (double)manif::Constants<Scalar>::eps, "Bundle::Random() has an element whose rotation part is not unit");
    }
    // classification
    std::set<int> dofs;
    for (auto& e : s.e) dofs.insert(e.dof());
    bool nonid = true;
    for (int b = 0; b < NB; ++b) {
      bool id = true;
      typename GroupT::DataType idc = GroupT::Identity().coeffs();
      for (int q = 0; q < s.e[b].rep(); ++q) if (X.coeffs()(s.rep_off(b) + q) != idc(s.rep_off(b) + q)) id = false;
      if (id) nonid = false;
    }
    k.o.nontrivial = NB >= 2 && dofs.size() >= 2 && nonid;
    if (cmp.total) k.label(cmp.bitident == cmp.total ? "all comparisons bit-identical" : "some comparison not bit-identical (within 8u)");
  } catch (const std::exception& e) {
    k.require("nothrow", false, std::string("exception: ") + e.what());
  }
  return k.o;
}

}  // namespace vfp
