// C04 -- plus, minus, between are the documented compositions; all aliases agree.
#include "vf_manif.h"

using namespace vf;
using namespace vfcfg;

VF_STD_PROPERTY("C04", "t != 0, X != Y and relative rotation > 1e-3 (when the group has a rotation); distinct = distinct input bit patterns")

namespace vfp {

vf::Shape shape() {
  Shape sh;
  sh.n_elems = 2;
  sh.n_tangents = 1;
  sh.tp = TP_FULL;
  sh.ep = EP_ALL;
  sh.ints = {{0, 2}};   // operand storage: 0 owning, 1 Map, 2 Map<const>
  sh.is_float = kIsFloat;
  return sh;
}

static std::vector<LD> lin_scale_of(const Spec& s, const MatL& A) {
  std::vector<LD> r;
  for (size_t b = 0; b < s.e.size(); ++b) {
    const Elem& e = s.e[b];
    int o = s.msz_off((int)b), n = e.msz();
    int rd = (e.k == K_RN) ? 0 : e.dim();
    LD m = 0;
    for (int i = 0; i < n; ++i) for (int j = 0; j < n; ++j) if (!(i < rd && j < rd)) m = std::max(m, fabsl(A(o + i, o + j)));
    r.push_back(1 + m);
  }
  return r;
}

static std::vector<LD> vmax(const std::vector<LD>& a, const std::vector<LD>& b) {
  std::vector<LD> r(a.size());
  for (size_t i = 0; i < a.size(); ++i) r[i] = std::max(a[i], b[i]);
  return r;
}
// rounding scale of a result whose exact value is A*B: entrywise |A||B|, and the size of the
// coordinates of the product element itself (incl. the |v||t| cross term of SGal3, which is the size
// of the tangent components its logarithm / exponential goes through)
static std::vector<LD> prod_scale(const Spec& s, const MatL& A, const MatL& B) {
  return vmax(lin_scale_of(s, MatL(A.cwiseAbs() * B.cwiseAbs())), ref_lin_scale_c(s, ref_coeffs(s, MatL(A * B))));
}

// exp(t)*X: the rounding error of exp(t) (relative to the linear size of t) reaches the translation of the
// product multiplied by the time coordinate of X for SGal3 (p = R_E p_X + t_X v_E + p_E)
static std::vector<LD> time_amp(const Spec& s, const VecL& xc) {
  std::vector<LD> r;
  for (size_t b = 0; b < s.e.size(); ++b)
    r.push_back(s.e[b].k == K_SGAL3 ? 1 + fabsl(xc(s.rep_off((int)b) + 10)) : 1.0L);
  return r;
}

template <class A, class B> static bool same_bits(const A& a, const B& b) {
  return a.coeffs().size() == b.coeffs().size() && (a.coeffs().array() == b.coeffs().array()).all();
}
template <class A, class B> static double rel_diff(const A& a, const B& b) {
  double w = 0;
  for (int i = 0; i < a.coeffs().size(); ++i) {
    double x = (double)a.coeffs()(i), y = (double)b.coeffs()(i);
    double d = std::fabs(x - y) / std::max(1e-300, std::max(std::fabs(x), std::fabs(y)));
    if (x == y) d = 0;
    if (!(d == d)) d = INFINITY;
    w = std::max(w, d);
  }
  return w;
}

// the canonical operations evaluated on operands of arbitrary storage kind
template <class GX, class GY, class TT> struct Ops {
  GroupT rplus, lplus, between;
  TangentT rminus, lminus;
  Ops(const GX& X, const GY& Y, const TT& t)
      : rplus(X.rplus(t)), lplus(X.lplus(t)), between(X.between(Y)), rminus(X.rminus(Y)), lminus(X.lminus(Y)) {}
};

static void check(Chk& k, const Spec& s, const Case& c, Prec prec) {
  const int R = s.rep(), D = s.dof();
  const double* p = c.reals.data();
  const GroupT X = make_elem<GroupT>(p), Y = make_elem<GroupT>(p + R);
  const TangentT T = make_tan<GroupT>(p + 2 * R);
  const VecL xc = toVL(X.coeffs()), yc = toVL(Y.coeffs()), t = toVL(T.coeffs());
  const MatL MX = ref_mat(s, xc, prec), MY = ref_mat(s, yc, prec), E = ref_exp(s, t, prec);
  const MatL MXi = ref_inv(s, MX, prec), MYi = ref_inv(s, MY, prec);
  const double tol = kValTol;
  const std::vector<LD> St = ref_lin_scale_t(s, t);
  const Ops<GroupT, GroupT, TangentT> o(X, Y, T);

  // ---- definitions against the reference model
  k.expect("rplus=X*exp(t)", (double)ref_group_err(s, ref_mat(s, toVL(o.rplus.coeffs()), prec), MatL(MX * E),
           scale_add(prod_scale(s, MX, E), St)), tol, "X.rplus(t) != X*exp(t)");
  k.expect("lplus=exp(t)*X", (double)ref_group_err(s, ref_mat(s, toVL(o.lplus.coeffs()), prec), MatL(E * MX),
           scale_add(prod_scale(s, E, MX), scale_mul(St, time_amp(s, xc)))), tol, "X.lplus(t) != exp(t)*X");
  k.expect("between=X^-1*Y", (double)ref_group_err(s, ref_mat(s, toVL(o.between.coeffs()), prec), MatL(MXi * MY),
           prod_scale(s, MXi, MY)), tol, "X.between(Y) != X^-1*Y");
  {
    const VecL d = toVL(o.rminus.coeffs());
    k.require("rminus.finite", all_finite(o.rminus.coeffs()), "non-finite rminus");
    k.bound("rminus.principal", (double)tan_theta_max(s, d), M_PI * (1 + 4 * kU), "rotation angle of rminus exceeds pi");
    k.expect("rminus=log(Y^-1*X)", (double)ref_group_err(s, ref_exp(s, d, prec), MatL(MYi * MX),
             scale_add(prod_scale(s, MYi, MX), ref_lin_scale_t(s, d))), tol, "exp(X.rminus(Y)) != Y^-1*X");
  }
  {
    const VecL d = toVL(o.lminus.coeffs());
    k.require("lminus.finite", all_finite(o.lminus.coeffs()), "non-finite lminus");
    k.bound("lminus.principal", (double)tan_theta_max(s, d), M_PI * (1 + 4 * kU), "rotation angle of lminus exceeds pi");
    k.expect("lminus=log(X*Y^-1)", (double)ref_group_err(s, ref_exp(s, d, prec), MatL(MX * MYi),
             scale_add(prod_scale(s, MX, MYi), ref_lin_scale_t(s, d))), tol, "exp(X.lminus(Y)) != X*Y^-1");
  }
  // ---- round trips
  {
    // X + (Y - X) = Y as a transformation
    const GroupT Y2 = X + (Y - X);
    const std::vector<LD> Sd = ref_lin_scale_t(s, toVL((Y - X).coeffs()));
    k.expect("X+(Y-X)=Y", (double)ref_group_err(s, ref_mat(s, toVL(Y2.coeffs()), prec), MY,
             scale_add(scale_mul(lin_scale_of(s, MX), prod_scale(s, MXi, MY)), Sd)), tol, "X+(Y-X) != Y");
    // (X + t) - X = t when the rotation of t is inside the injectivity radius
    if (tan_theta_max(s, t) < M_PI - 1e-6) {
      const VecL r = toVL(((X + T) - X).coeffs());
      const std::vector<LD> S = scale_mul(prod_scale(s, MXi, MX), St);
      LD worst = 0;
      for (size_t b = 0; b < s.e.size(); ++b) {
        const Elem& e = s.e[b];
        for (int i = 0; i < e.dof(); ++i) {
          bool is_ang = e.k != K_RN && i >= e.ang0() && i < e.ang0() + e.nang();
          LD sc = is_ang ? 4.0L : S[b];
          LD d = fabsl(r(s.dof_off((int)b) + i) - t(s.dof_off((int)b) + i)) / sc;
          if (!(d == d)) d = INFINITY;
          worst = std::max(worst, d);
        }
      }
      k.expect("(X+t)-X=t", (double)worst, tol, "(X+t)-X != t");
    }
  }
  // ---- aliases: bit-identical to the canonical member
  {
    k.require("plus==rplus", same_bits(X.plus(T), o.rplus), "X.plus(t) != X.rplus(t)");
    k.require("X+t==rplus", same_bits(X + T, o.rplus), "X+t != X.rplus(t)");
    { GroupT Z = X; Z += T; k.require("X+=t==rplus", same_bits(Z, o.rplus), "X+=t != X.rplus(t)"); }
    const GroupT XY = X.compose(Y);
    k.require("X*Y==compose", same_bits(X * Y, XY), "X*Y != X.compose(Y)");
    { GroupT Z = X; Z *= Y; k.require("X*=Y==compose", same_bits(Z, XY), "X*=Y != X.compose(Y)"); }
    k.require("minus==rminus", same_bits(X.minus(Y), o.rminus), "X.minus(Y) != X.rminus(Y)");
    k.require("X-Y==rminus", same_bits(X - Y, o.rminus), "X-Y != X.rminus(Y)");
    k.require("t+X==lplus", same_bits(T + X, o.lplus), "t+X != X.lplus(t)");
    k.require("t.plus(X)==lplus", same_bits(T.plus(X), o.lplus), "t.plus(X) != X.lplus(t)");
    k.require("t.lplus(X)==lplus", same_bits(T.lplus(X), o.lplus), "t.lplus(X) != X.lplus(t)");
    k.require("t.rplus(X)==rplus", same_bits(T.rplus(X), o.rplus), "t.rplus(X) != X.rplus(t)");
    // free functions (functions.h)
    k.require("f:rplus", same_bits(manif::rplus(X, T), o.rplus), "manif::rplus");
    k.require("f:lplus", same_bits(manif::lplus(X, T), o.lplus), "manif::lplus");
    k.require("f:plus", same_bits(manif::plus(X, T), o.rplus), "manif::plus");
    k.require("f:rminus", same_bits(manif::rminus(X, Y), o.rminus), "manif::rminus");
    k.require("f:lminus", same_bits(manif::lminus(X, Y), o.lminus), "manif::lminus");
    k.require("f:minus", same_bits(manif::minus(X, Y), o.rminus), "manif::minus");
    k.require("f:between", same_bits(manif::between(X, Y), o.between), "manif::between");
    k.require("f:compose", same_bits(manif::compose(X, Y), XY), "manif::compose");
    k.require("f:inverse", same_bits(manif::inverse(X), X.inverse()), "manif::inverse");
    k.require("f:log", same_bits(manif::log(X), X.log()), "manif::log");
    k.require("f:exp", same_bits(manif::exp(T), T.exp()), "manif::exp");
    {
      typename GroupT::Vector v = GroupT::Vector::Ones();
      k.require("f:act", (manif::act(X, v).array() == X.act(v).array()).all(), "manif::act");
    }
  }
  // ---- view operands give the same results (8u per coefficient; see DESIGN 1.4)
  {
    const int kind = (int)c.ints[0];
    if (kind > 0) {
      // unaligned user buffers
      std::vector<Scalar> bx(R + 1), by(R + 1), bt(D + 1);
      for (int i = 0; i < R; ++i) { bx[i + 1] = X.coeffs()(i); by[i + 1] = Y.coeffs()(i); }
      for (int i = 0; i < D; ++i) bt[i + 1] = T.coeffs()(i);
      double w = 0;
      if (kind == 1) {
        Eigen::Map<GroupT> mx(bx.data() + 1), my(by.data() + 1);
        Eigen::Map<TangentT> mt(bt.data() + 1);
        Ops<Eigen::Map<GroupT>, Eigen::Map<GroupT>, Eigen::Map<TangentT>> ov(mx, my, mt);
        w = std::max({rel_diff(ov.rplus, o.rplus), rel_diff(ov.lplus, o.lplus), rel_diff(ov.between, o.between),
                      rel_diff(ov.rminus, o.rminus), rel_diff(ov.lminus, o.lminus)});
      } else {
        const Eigen::Map<const GroupT> mx(bx.data() + 1), my(by.data() + 1);
        const Eigen::Map<const TangentT> mt(bt.data() + 1);
        Ops<Eigen::Map<const GroupT>, Eigen::Map<const GroupT>, Eigen::Map<const TangentT>> ov(mx, my, mt);
        w = std::max({rel_diff(ov.rplus, o.rplus), rel_diff(ov.lplus, o.lplus), rel_diff(ov.between, o.between),
                      rel_diff(ov.rminus, o.rminus), rel_diff(ov.lminus, o.lminus)});
      }
      k.bound("views==owning", w, 8 * kU, "view operands give a different result than owning operands");
    }
  }
}

vf::Outcome run_case(const vf::Case& c, const vf::RunCtx& ctx) {
  const Spec s = spec();
  Chk k(ctx);
  try {
    check(k, s, c, P_LD);
    if (k.suspicious(0.1)) { Chk k2(ctx); check(k2, s, c, P_MP); k2.o.confirmed_mp = 1; k = k2; }
  } catch (const std::exception& e) {
    k.require("nothrow", false, std::string("exception: ") + e.what());
  }
  const int R = s.rep(), D = s.dof();
  const VecL xc = vecL(c.reals.data(), R), yc = vecL(c.reals.data() + R, R), t = vecL(c.reals.data() + 2 * R, D);
  // relative rotation between X and Y
  LD rel = INFINITY;
  if (s.has_rotation()) {
    const MatL Dm = ref_inv(s, ref_mat(s, xc)) * ref_mat(s, yc);
    for (LD a : ref_angles_of_coeffs(s, ref_coeffs(s, Dm))) rel = std::min(rel, a);
  }
  bool tz = true;
  for (int i = 0; i < D; ++i) if (t(i) != 0) tz = false;
  k.o.nontrivial = !tz && (!s.has_rotation() || rel > 1e-3);
  k.label(std::string("t:") + theta_stratum((double)tan_theta_max(s, t), kIsFloat));
  k.label(std::string("kind=") + std::to_string((int)c.ints[0]));
  if (s.has_rotation()) k.label(rel > M_PI - 1e-3 ? "relative rotation near pi" : (rel < 1e-6 ? "relative rotation < 1e-6" : "relative rotation generic"));
  return k.o;
}

}  // namespace vfp
