// C18 -- approximate equality is a well-behaved tolerance relation.
#include "vf_manif.h"

using namespace vf;
using namespace vfcfg;

VF_STD_PROPERTY("C18", "coordinates >= 1e3, or a q/-q pair, or |s| = 1 (distance one decade from eps); distinct = distinct input bit patterns")

namespace vfp {

static const int R = GroupT::RepSize, D = GroupT::DoF;

vf::Shape shape() {
  Shape sh;
  sh.n_elems = 1;
  sh.n_tangents = 2;        // direction of the perturbation, a second tangent for the tangent-side clauses
  sh.tp = TP_MODERATE;
  sh.ep = EP_WIDE;          // coordinates 1e-8 .. 1e9
  sh.scalars = {SK_EPS, SK_LOGS, SK_SIGNED_MAG, SK_UNIT, SK_UNIT};   // last two: norms of the tangent pair of the symmetry clause, in units of eps
  sh.ints = {{0, 1}};       // use the default eps instead of the generated one
  sh.is_float = kIsFloat;
  return sh;
}

static GroupT negate_quats(const Spec& s, const GroupT& X, bool& any) {
  typename GroupT::DataType d = X.coeffs();
  any = false;
  for (size_t b = 0; b < s.e.size(); ++b) {
    const Elem& e = s.e[b];
    if (e.k == K_RN || e.nrot() != 4) continue;
    any = true;
    for (int i = 0; i < 4; ++i) d(s.rep_off((int)b) + e.rot0() + i) = -d(s.rep_off((int)b) + e.rot0() + i);
  }
  return GroupT(d);
}

vf::Outcome run_case(const vf::Case& c, const vf::RunCtx& ctx) {
  const Spec s = spec();
  Chk k(ctx);
  const double* p = c.reals.data();
  try {
    const GroupT X = make_elem<GroupT>(p);
    const TangentT dir = make_tan<GroupT>(p + R), U = make_tan<GroupT>(p + R + D);
    const bool use_default = c.ints[0] == 1;
    const Scalar eps = use_default ? manif::Constants<Scalar>::eps : (Scalar)c.reals[R + 2 * D];
    const double sexp = c.reals[R + 2 * D + 1];
    const VecL xc = toVL(X.coeffs());
    const double coord = (double)coeff_lin_max(s, xc);

    // ---- reflexivity, for every X and eps (also large coordinates, also q / -q)
    k.require("X.isApprox(X,eps)", X.isApprox(X, eps), "X.isApprox(X, eps) is false (eps=" + fmt((double)eps) + ", max coordinate " + fmt(coord) + ")");
    k.require("X==X", X == X, "X == X is false (max coordinate " + fmt(coord) + ")");
    bool has_q = false;
    const GroupT Xn = negate_quats(s, X, has_q);
    if (has_q) {
      k.require("X(q)==X(-q)", X == Xn && Xn == X, "the same transformation written with q and -q compares unequal (max coordinate " + fmt(coord) + ")");
      k.require("X(q).isApprox(X(-q),eps)", X.isApprox(Xn, eps) && Xn.isApprox(X, eps), "isApprox false between q and -q");
    }
    // ---- near => true, far => false, symmetric (only where the decision is meaningful:
    //      the rounding noise u*|coordinates| of Y (-) X must be well below the distance and eps)
    {
      const double dn = (double)dir.coeffs().cwiseAbs().maxCoeff();
      const double noise = 64 * kU * (double)ref_lin_scale_c(s, xc)[0] * (double)s.e.size();
      double worst_noise = noise;
      for (LD v : ref_lin_scale_c(s, xc)) worst_noise = std::max(worst_noise, 64 * kU * (double)v);
      const double dist = (double)eps * std::pow(10.0, sexp);
      if (dn > (kIsFloat ? 1e-30 : 1e-300) && worst_noise <= 1e-2 * std::min((double)eps, dist) && dist < 0.5) {
        TangentT d = dir;
        d.coeffs() *= (Scalar)(dist / dn);     // ||d||_inf = eps * 10^s
        const GroupT Y = X + d;
        const bool xy = X.isApprox(Y, eps), yx = Y.isApprox(X, eps);
        k.require("symmetric", xy == yx, "isApprox(X,Y) != isApprox(Y,X) at distance eps*10^" + fmt(sexp));
        if (sexp < 0) k.require("near => approx", xy, "Y (-) X = eps*10^" + fmt(sexp) + " in every component but isApprox is false");
        else k.require("far => not approx", !xy, "Y (-) X = eps*10^" + fmt(sexp) + " but isApprox is true");
        k.label(sexp < 0 ? "near pair" : "far pair");
        if (has_q) {
          bool dummy; const GroupT Yn = negate_quats(s, Y, dummy);
          k.require("q/-q consistent", X.isApprox(Yn, eps) == xy, "isApprox differs when the other element is written with -q");
        }
      } else k.label("distance clause skipped (noise floor)");
    }
    // ---- tangents
    {
      k.require("t.isApprox(t)", U.isApprox(U, eps) && (U == U), "t.isApprox(t) is false");
      const TangentT Z = TangentT::Zero();
      const double un = (double)U.coeffs().cwiseAbs().maxCoeff();
      if (un > (kIsFloat ? 1e-30 : 1e-300)) {
        // absolute test against zero
        TangentT tiny = U; tiny.coeffs() *= (Scalar)(0.1 * (double)eps / un);
        TangentT big = U; big.coeffs() *= (Scalar)(10 * (double)eps / un);
        k.require("tiny ~ 0", tiny.isApprox(Z, eps) && Z.isApprox(tiny, eps), "|t|_inf = eps/10 is not approx zero");
        k.require("10 eps !~ 0", !big.isApprox(Z, eps) && !Z.isApprox(big, eps), "|t|_inf = 10 eps is approx zero");
        // relative test otherwise (norms well above eps)
        if (un * 1e-3 > (double)eps && (double)eps < 1e-2) {
          TangentT near = U; near.coeffs() *= (Scalar)(1 + 0.01 * (double)eps);
          TangentT far = U; far.coeffs() *= (Scalar)(1 + 100 * (double)eps);
          const bool a = U.isApprox(near, eps), b = near.isApprox(U, eps), c2 = U.isApprox(far, eps), d2 = far.isApprox(U, eps);
          if (0.01 * (double)eps > 8 * kU) k.require("relative: near", a && b, "t and t*(1+eps/100) not approx");
          k.require("relative: far", !c2 && !d2, "t and t*(1+100 eps) approx");
          k.require("tangent symmetric", a == b && c2 == d2, "tangent isApprox not symmetric");
        }
      }
    }
    // ---- tangents: symmetry for pairs whose norms lie anywhere around eps (0.01 eps .. 100 eps each, independent directions)
    {
      const double na = (double)U.coeffs().norm(), nb = (double)dir.coeffs().norm();
      const double lo = kIsFloat ? 1e-30 : 1e-280;
      if (na > lo && nb > lo && na < 1e30 && nb < 1e30) {
        const double fa = std::pow(10.0, 4 * c.reals[R + 2 * D + 3] - 2), fb = std::pow(10.0, 4 * c.reals[R + 2 * D + 4] - 2);
        TangentT a = U, b = dir;
        a.coeffs() *= (Scalar)(fa * (double)eps / na); b.coeffs() *= (Scalar)(fb * (double)eps / nb);
        k.require("tangent symmetric (norms around eps)", a.isApprox(b, eps) == b.isApprox(a, eps), "tangent isApprox not symmetric for |a| = " + fmt(fa) + " eps, |b| = " + fmt(fb) + " eps");
        // same direction, different length: the absolute branch decides on the difference alone
        TangentT b2 = U; b2.coeffs() *= (Scalar)(fb * (double)eps / na);
        k.require("tangent symmetric (collinear, norms around eps)", a.isApprox(b2, eps) == b2.isApprox(a, eps), "tangent isApprox not symmetric for collinear |a| = " + fmt(fa) + " eps, |b| = " + fmt(fb) + " eps");
        if ((fa < 1) != (fb < 1)) k.label("tangent pair straddles eps");
      }
    }
    k.o.nontrivial = coord >= 1e3 || has_q || std::fabs(std::fabs(sexp) - 1) < 1e-9;
    k.label(std::string("coord:") + mag_decade(coord));
    if (use_default) k.label("default eps");
  } catch (const std::exception& e) {
    k.require("nothrow", false, std::string("exception: ") + e.what());
  }
  return k.o;
}

}  // namespace vfp
