// C08 -- elements stay valid under arbitrarily long operation histories.
// Built twice: assertions enabled (any exception is a violation) and -DNDEBUG.
#include "vf_manif.h"
#include <vector>

using namespace vf;
using namespace vfcfg;

VF_STD_PROPERTY("C08", "history contains >= 1 compose that entered the renormalisation branch (|norm^2 of the raw product - 1| > eps, operands prepared off-norm) and >= 3 different opcodes; distinct = distinct histories")

namespace vfp {

static const int R = GroupT::RepSize, D = GroupT::DoF;
static const int kOps = 16;

vf::Shape shape() {
  Shape sh;
  sh.n_elems = 3;
  sh.ep = EP_MODERATE;
  sh.scalars = {SK_UNIT, SK_UNIT, SK_UNIT};   // off-norm factors of the three starting elements
  sh.ints = {{0, 3}};                          // soak: replay the history cyclically for 0 / 1e3 / 1e4 / 1e5 (thorough 1e6) more steps
  sh.seq_min = 1; sh.seq_max = 2000; sh.n_ops = kOps;
  sh.seq_tp = TP_MODERATE;
  sh.is_float = kIsFloat;
  return sh;
}

static LD dev(const Spec& s, const GroupT& X) { return rot_norm_dev(s, toVL(X.coeffs())); }

// squared norm of the raw product of the rotation parts (what compose() tests against eps)
static bool enters_renorm(const Spec& s, const GroupT& A, const GroupT& B) {
  for (size_t b = 0; b < s.e.size(); ++b) {
    const Elem& e = s.e[b];
    if (e.k == K_RN) continue;
    LD na = 0, nb = 0;
    for (int i = 0; i < e.nrot(); ++i) {
      LD x = (LD)A.coeffs()(s.rep_off((int)b) + e.rot0() + i), y = (LD)B.coeffs()(s.rep_off((int)b) + e.rot0() + i);
      na += x * x; nb += y * y;
    }
    if (fabsl(na * nb - 1) > (LD)manif::Constants<Scalar>::eps) return true;
  }
  return false;
}

struct State {
  GroupT A, B, C;
};

static GroupT recentre(const Spec& s, const GroupT& X) {
  // same rotation coefficients, linear parts scaled back into [-1,1]: construction from raw coefficients
  typename GroupT::DataType d = X.coeffs();
  for (size_t b = 0; b < s.e.size(); ++b) {
    const Elem& e = s.e[b];
    for (int i = 0; i < e.rep(); ++i) {
      bool is_rot = e.k != K_RN && i >= e.rot0() && i < e.rot0() + e.nrot();
      if (!is_rot) { Scalar& v = d(s.rep_off((int)b) + i); if (std::fabs((double)v) > 1) v = (Scalar)std::fmod((double)v, 1.0); }
    }
  }
  return GroupT(d);
}

static void apply(int op, State& st, const TangentT& t, const Spec& s, bool& renorm) {
  GroupT& A = st.A;
  const GroupT& B = st.B;
  const double u = std::min(1.0, std::fabs((double)t.coeffs()(0)) - std::floor(std::fabs((double)t.coeffs()(0))));
  switch (op) {
    case 0: A = t.exp(); break;
    case 1: renorm |= enters_renorm(s, A, B); A = A.compose(B); break;
    case 2: A = A.inverse(); break;
    case 3: A = A.between(B); break;
    case 4: A += t; break;
    case 5: A = A.lplus(t); break;
    case 6: renorm |= enters_renorm(s, A, A); A *= A; break;
    case 7: A = manif::interpolate(A, B, (Scalar)u, manif::INTERP_METHOD::SLERP); break;
    case 8: A = manif::interpolate(A, B, (Scalar)u, manif::INTERP_METHOD::CNSMOOTH, t, -t); break;
    case 9: A = manif::interpolate(A, B, (Scalar)u, manif::INTERP_METHOD::CUBIC, t, t); break;
    case 10: {
      std::vector<GroupT> pts = {A, A + (t * Scalar(1e-3)), A + (t * Scalar(-2e-3))};
      switch (((int)(u * 4)) % 4) {
        case 0: A = manif::average_biinvariant(pts); break;
        case 1: A = manif::average_frechet_left(pts); break;
        case 2: A = manif::average_frechet_right(pts); break;
        default: A = manif::average_biinvariant(pts); break;
      }
      break;
    }
    case 11: {
      using Other = typename std::conditional<kIsFloat, double, float>::type;
      A = A.template cast<Other>().template cast<Scalar>();
      break;
    }
    case 12: A = GroupT::Random(); break;
    case 13: { GroupT tmp = st.A; st.A = st.B; st.B = st.C; st.C = tmp; break; }
    case 14: A = recentre(s, A); break;
    default: renorm |= enters_renorm(s, A, B); A = A * B.inverse() * t.exp(); break;
  }
}

vf::Outcome run_case(const vf::Case& c, const vf::RunCtx& ctx) {
  const Spec s = spec();
  Chk k(ctx);
  const double eps = (double)manif::Constants<Scalar>::eps;
  const size_t L = c.ints.size() - 1;
  std::set<int> opcodes;
  bool renorm = false;
  long steps = 0, harness_recentres = 0;
  LD maxdev = 0, first_decile = 0, last_decile = 0;
  try {
    // starting elements at the acceptance threshold: rotation coefficients scaled by 1 + 0.9 eps (2u-1)
    State st;
    GroupT* el[3] = {&st.A, &st.B, &st.C};
    for (int e = 0; e < 3; ++e) {
      typename GroupT::DataType d;
      for (int i = 0; i < R; ++i) d(i) = (Scalar)c.reals[e * R + i];
      const LD f = 1.0L + 0.9L * (LD)eps * (2 * (LD)c.reals[3 * R + e] - 1);
      for (size_t b = 0; b < s.e.size(); ++b) {
        const Elem& el2 = s.e[b];
        if (el2.k == K_RN) continue;
        for (int i = 0; i < el2.nrot(); ++i) { Scalar& v = d(s.rep_off((int)b) + el2.rot0() + i); v = (Scalar)((LD)v * f); }
      }
      *el[e] = GroupT(d);   // must be accepted: within the threshold
    }
    long soak = 0;
    switch (c.ints[0]) { case 1: soak = 1000; break; case 2: soak = 10000; break; case 3: soak = ctx.thorough ? 1000000 : 100000; break; default: break; }
    if (ctx.fuzz) soak = std::min<long>(soak, 1000);
    const long total = (long)L + (L ? soak : 0);
    const double* tr = c.reals.data() + 3 * R + 3;
    std::vector<TangentT> tans;
    for (size_t i = 0; i < L; ++i) tans.push_back(make_tan<GroupT>(tr + i * D));
    for (long i = 0; i < total; ++i) {
      const size_t j = (size_t)(i % (long)L);
      const int op = (int)c.ints[1 + j];
      opcodes.insert(op);
      apply(op, st, tans[j], s, renorm);
      ++steps;
      const GroupT* all[3] = {&st.A, &st.B, &st.C};
      for (const GroupT* g : all) {
        if (!all_finite(g->coeffs())) { k.require("finite", false, "non-finite coefficient after step " + std::to_string(i) + " (op " + std::to_string(op) + ")"); goto done; }
      }
      const LD dv = std::max(dev(s, st.A), std::max(dev(s, st.B), dev(s, st.C)));
      if (!(dv < (LD)eps)) { k.bound("unit", (double)dv, eps * (1 - 1e-9), "rotation part left the acceptance threshold after step " + std::to_string(i) + " (op " + std::to_string(op) + ")"); goto done; }
      maxdev = std::max(maxdev, dv);
      if (i < std::max<long>(1, total / 10)) first_decile = std::max(first_decile, dv);
      if (i >= total - std::max<long>(1, total / 10)) last_decile = std::max(last_decile, dv);
      // the harness (not the library) keeps translations bounded so that overflow is not mistaken for a defect
      if (coeff_lin_max(s, toVL(st.A.coeffs())) > 1e12L) { st.A = recentre(s, st.A); ++harness_recentres; }
    }
    k.bound("unit", (double)maxdev, eps * (1 - 1e-9), "rotation part left the acceptance threshold");
    if (total >= 200) {
      // the deviation does not grow with the length of the history
      k.bound("no drift", (double)last_decile, (double)(2 * first_decile + 4 * (LD)kU + 0.5L * (LD)eps), "norm deviation grows along the history");
    }
  } catch (const std::exception& e) {
#ifdef NDEBUG
    k.require("nothrow(ndebug)", false, std::string("exception with NDEBUG after ") + std::to_string(steps) + " steps: " + e.what());
#else
    k.require("nothrow", false, std::string("exception after ") + std::to_string(steps) + " steps: " + e.what());
#endif
  }
done:
  k.o.nontrivial = renorm && opcodes.size() >= 3;
  if (renorm) k.label("renormalisation branch entered");
  k.label(steps >= 100000 ? "steps>=1e5" : (steps >= 1000 ? "steps>=1e3" : (steps >= 100 ? "steps>=100" : "steps<100")));
  if (harness_recentres) k.label("harness recentred translations");
  return k.o;
}

}  // namespace vfp
