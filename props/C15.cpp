// C15 -- interpolation hits its end points and SLERP follows the geodesic.
#include "vf_manif.h"
#include <cstring>
#include "vf_rat.h"

using namespace vf;
using namespace vfcfg;

VF_STD_PROPERTY("C15", "0 < t < 1, A != B and (for CUBIC / CNSMOOTH) non-zero end velocities; distinct = distinct input bit patterns")

namespace vfp {

static const int R = GroupT::RepSize, D = GroupT::DoF;

vf::Shape shape() {
  Shape sh;
  sh.n_elems = 2;          // A and a left translation g
  sh.n_tangents = 3;       // d (B = A (+) d, relative rotation < pi), ta, tb
  sh.tp = TP_INJ;
  sh.ep = EP_MODERATE;
  sh.scalars = {SK_ANYT, SK_UNIT, SK_UNIT};
  sh.ints = {{0, 2}, {0, 8}, {-40, 40}, {1, 9}};   // method, degree, rational t numerator / denominator selector
  sh.is_float = kIsFloat;
  return sh;
}

static std::vector<LD> lin_scale_of(const Spec& s, const MatL& A) {
  std::vector<LD> r;
  for (size_t b = 0; b < s.e.size(); ++b) {
    const Elem& e = s.e[b];
    int o = s.msz_off((int)b), n = e.msz();
    int rd = (e.k == K_RN) ? 0 : e.dim();
    LD m = 0;
    for (int i = 0; i < n; ++i) for (int j = 0; j < n; ++j) if (!(i < rd && j < rd)) m = std::max(m, fabsl(A(o + i, o + j)));
    r.push_back(1 + m);
  }
  return r;
}

template <class F> static int throws(F f) {
  try { f(); } catch (const std::exception&) { return 1; } catch (...) { return 2; }
  return 0;
}

static const manif::INTERP_METHOD kMethods[3] = {manif::INTERP_METHOD::SLERP, manif::INTERP_METHOD::CUBIC, manif::INTERP_METHOD::CNSMOOTH};
static const char* kMethodName[3] = {"SLERP", "CUBIC", "CNSMOOTH"};

// exact monotonicity / end values of the smoothing polynomial on a rational grid: once per process
static std::string phi_grid_failure() {
  static bool done = false;
  static std::string fail;
  if (done) return fail;
  done = true;
  for (int deg = 1; deg <= 4; ++deg) {
    if (manif::smoothing_phi(Rat(0), deg) != Rat(0)) fail = "phi(0) != 0 for degree " + std::to_string(deg);
    if (manif::smoothing_phi(Rat(1), deg) != Rat(1)) fail = "phi(1) != 1 for degree " + std::to_string(deg);
    Rat prev(0);
    const int Ngrid = 2000;
    for (int i = 1; i <= Ngrid; ++i) {
      Rat t(BigQ{BigZ(i), BigZ(Ngrid)});
      Rat v = manif::smoothing_phi(t, deg);
      if (v.inexact) fail = "phi used inexact arithmetic over the exact scalar";
      if (v < prev) fail = "phi not monotone at t=" + std::to_string(i) + "/" + std::to_string(Ngrid) + " degree " + std::to_string(deg);
      prev = v;
    }
  }
  return fail;
}

static void check(Chk& k, const Spec& s, const Case& c, Prec prec) {
  const double* p = c.reals.data();
  const GroupT A = make_elem<GroupT>(p), G = make_elem<GroupT>(p + R);
  const TangentT Dt = make_tan<GroupT>(p + 2 * R);
  TangentT ta = make_tan<GroupT>(p + 2 * R + D), tb = make_tan<GroupT>(p + 2 * R + 2 * D);
  // end velocities: norm up to 10
  {
    const double sa = 10 * c.reals[2 * R + 3 * D + 1], sb = 10 * c.reals[2 * R + 3 * D + 2];
    const double na = (double)ta.coeffs().norm(), nb = (double)tb.coeffs().norm();
    if (na > 0) ta.coeffs() *= (Scalar)(sa / na); if (nb > 0) tb.coeffs() *= (Scalar)(sb / nb);
    if (!all_finite(ta.coeffs())) ta.setZero();
    if (!all_finite(tb.coeffs())) tb.setZero();
  }
  const GroupT B = A.rplus(Dt);
  const Scalar t = (Scalar)c.reals[2 * R + 3 * D];
  const int mi = (int)c.ints[0];
  const manif::INTERP_METHOD m = kMethods[mi];
  const std::string mn = kMethodName[mi];
  const VecL ac = toVL(A.coeffs()), bc = toVL(B.coeffs());
  const MatL MA = ref_mat(s, ac, prec), MB = ref_mat(s, bc, prec);
  const bool in_range = (double)t >= 0 && (double)t <= 1;
  const double tol = kValTol;
  // generous rounding scale: sizes of both end points, the geodesic between them and the velocities
  const std::vector<LD> S = scale_mul(scale_mul(ref_lin_scale_c(s, ac), ref_lin_scale_c(s, bc)),
                                      scale_add(scale_add(ref_lin_scale_t(s, toVL(ta.coeffs())), ref_lin_scale_t(s, toVL(tb.coeffs()))), ref_lin_scale_t(s, toVL(Dt.coeffs()))));

  // ---- parameter outside [0,1] (incl. NaN / inf) is rejected with an exception
  if (!in_range) {
    for (int q = 0; q < 3; ++q) {
      const int th = throws([&] { auto r = manif::interpolate(A, B, t, kMethods[q], ta, tb); (void)r; });
      k.require(std::string("reject t outside [0,1]:") + kMethodName[q], th == 1, std::string(kMethodName[q]) + ": t = " + fmt((double)t) + (th == 0 ? " accepted" : " raised a non-std exception"));
    }
    k.require("reject t:slerp", throws([&] { auto r = manif::interpolate_slerp(A, B, t); (void)r; }) == 1, "interpolate_slerp accepted t outside [0,1]");
    k.require("reject t:cubic", throws([&] { auto r = manif::interpolate_cubic(A, B, t, ta, tb); (void)r; }) == 1, "interpolate_cubic accepted t outside [0,1]");
    k.require("reject t:smooth", throws([&] { auto r = manif::interpolate_smooth(A, B, t, 2, ta, tb); (void)r; }) == 1, "interpolate_smooth accepted t outside [0,1]");
    return;
  }
  // ---- end points, every method, any end velocities
  for (int q = 0; q < 3; ++q) {
    const GroupT m0 = manif::interpolate(A, B, Scalar(0), kMethods[q], ta, tb), m1 = manif::interpolate(A, B, Scalar(1), kMethods[q], ta, tb);
    k.expect(std::string("m(0)=A:") + kMethodName[q], (double)ref_group_err(s, ref_mat(s, toVL(m0.coeffs()), prec), MA, S), tol, std::string(kMethodName[q]) + ": interpolate(A,B,0) != A");
    k.expect(std::string("m(1)=B:") + kMethodName[q], (double)ref_group_err(s, ref_mat(s, toVL(m1.coeffs()), prec), MB, S), tol, std::string(kMethodName[q]) + ": interpolate(A,B,1) != B");
  }
  // interior value: valid element
  const GroupT M = manif::interpolate(A, B, t, m, ta, tb);
  k.require("finite:" + mn, all_finite(M.coeffs()), mn + ": non-finite interpolant");
  k.bound("unit:" + mn, (double)rot_norm_dev(s, toVL(M.coeffs())), (double)manif::Constants<Scalar>::eps, mn + ": interpolant not a valid element");

  // ---- SLERP: geodesic, log-linearity, left equivariance
  {
    const GroupT Ms = manif::interpolate(A, B, t, manif::INTERP_METHOD::SLERP);
    k.require("slerp alias", (Ms.coeffs().array() == manif::interpolate_slerp(A, B, t).coeffs().array()).all(), "interpolate(SLERP) != interpolate_slerp");
    VecL d;
    const MatL Rel = ref_inv(s, MA, prec) * MB;
    if (ref_log(s, Rel, d, prec)) {
      const MatL want = MA * ref_exp(s, VecL(d * (LD)t), prec);
      k.expect("slerp=A*exp(t*log(A^-1 B))", (double)ref_group_err(s, ref_mat(s, toVL(Ms.coeffs()), prec), want, S), tol, "SLERP is not A*exp(t*log(A^-1*B))");
      // log(A^-1 m(t)) = t log(A^-1 B), on manif's own values
      const VecL lhs = toVL(Ms.rminus(A).coeffs()), rhs = toVL(B.rminus(A).coeffs()) * (LD)t;
      LD worst = 0;
      for (size_t b = 0; b < s.e.size(); ++b) for (int i = 0; i < s.e[b].dof(); ++i) {
        const Elem& e = s.e[b];
        bool is_ang = e.k != K_RN && i >= e.ang0() && i < e.ang0() + e.nang();
        LD dd = fabsl(lhs(s.dof_off((int)b) + i) - rhs(s.dof_off((int)b) + i)) / (is_ang ? 4.0L : S[b]);
        if (!(dd == dd)) dd = INFINITY;
        worst = std::max(worst, dd);
      }
      k.expect("log(A^-1 m(t))=t*log(A^-1 B)", (double)worst, tol, "SLERP is not log-linear");
    } else k.label("slerp oracle inconclusive");
    // g*slerp(A,B,t) = slerp(gA,gB,t)
    const GroupT lhs = G * Ms, rhs = manif::interpolate(G * A, G * B, t, manif::INTERP_METHOD::SLERP);
    const MatL MG = ref_mat(s, toVL(G.coeffs()), prec);
    // coordinates of g incl. the |v||t| cross term of SGal3 (the inverse of g*A goes through p - t v)
    const std::vector<LD> Sg = scale_mul(scale_mul(ref_lin_scale_c(s, toVL(G.coeffs())), lin_scale_of(s, MatL(MG.cwiseAbs()))), S);
    k.expect("slerp left-equivariant", (double)ref_group_err(s, ref_mat(s, toVL(lhs.coeffs()), prec), ref_mat(s, toVL(rhs.coeffs()), prec), Sg), tol, "g*slerp(A,B,t) != slerp(g*A,g*B,t)");
  }
  // ---- call history: consecutive SLERP calls that share exactly one end point with the previous call (a segment-wise
  //      trajectory A->C, B->C, ...) obey the same law, and repeating the first call reproduces its result bit for bit
  {
    const GroupT C = A.rplus(Dt * Scalar(0.5));
    const VecL cc = toVL(C.coeffs());
    const MatL MC = ref_mat(s, cc, prec);
    auto law = [&](const GroupT& P, const MatL& MP, const GroupT& Q, const MatL& MQ, const std::string& name) {
      const GroupT r = manif::interpolate_slerp(P, Q, t);
      VecL d;
      if (!ref_log(s, MatL(ref_inv(s, MP, prec) * MQ), d, prec)) { k.label("slerp history oracle inconclusive"); return; }
      const MatL want = MP * ref_exp(s, VecL(d * (LD)t), prec);
      k.expect("slerp history:" + name, (double)ref_group_err(s, ref_mat(s, toVL(r.coeffs()), prec), want, S), tol,
               "SLERP called right after a call that shares one end point is not P*exp(t*log(P^-1*Q)) (" + name + ")");
    };
    const GroupT first = manif::interpolate_slerp(A, B, t);
    law(A, MA, C, MC, "(A,B) then (A,C)");
    law(B, MB, C, MC, "(A,C) then (B,C)");
    law(B, MB, A, MA, "(B,C) then (B,A)");
    const GroupT again = manif::interpolate_slerp(A, B, t);
    k.require("slerp history: repeatable", std::memcmp(first.data(), again.data(), R * sizeof(Scalar)) == 0, "interpolate_slerp(A,B,t) depends on the calls made in between");
    for (int q = 0; q < 3; ++q) {
      const GroupT r1 = manif::interpolate(A, B, t, kMethods[q], ta, tb);
      (void)manif::interpolate(A, C, t, kMethods[q], ta, tb); (void)manif::interpolate(C, B, t, kMethods[q], tb, ta);
      const GroupT r2 = manif::interpolate(A, B, t, kMethods[q], ta, tb);
      k.require(std::string("history: repeatable:") + kMethodName[q], std::memcmp(r1.data(), r2.data(), R * sizeof(Scalar)) == 0, std::string(kMethodName[q]) + ": interpolate(A,B,t) depends on the calls made in between");
    }
  }
  // ---- smoothing polynomial
  {
    const int deg = (int)c.ints[1];
    const bool supported = deg >= 1 && deg <= 4;
    const int th = throws([&] { auto v = manif::smoothing_phi(t, (std::size_t)deg); (void)v; });
    if (!supported) {
      k.require("phi: unsupported degree raises", th == 1, "smoothing_phi(t," + std::to_string(deg) + ") did not raise");
      k.require("interpolate_smooth: unsupported degree raises", throws([&] { auto r = manif::interpolate_smooth(A, B, t, (unsigned)deg, ta, tb); (void)r; }) == 1,
                "interpolate_smooth with degree " + std::to_string(deg) + " did not raise");
    } else {
      k.require("phi: supported degree", th == 0, "smoothing_phi raised for a supported degree");
      const std::string gf = phi_grid_failure();
      k.require("phi: exact grid", gf.empty(), gf);
      // exact rational pair t1 < t2 in [0,1]
      const long den = (long)c.ints[3] * 37 + 1;
      long n1 = std::labs((long)c.ints[2]) % (den + 1), n2 = (std::labs((long)c.ints[2]) * 7 + 3) % (den + 1);
      if (n1 > n2) std::swap(n1, n2);
      const Rat t1(BigQ{BigZ(n1), BigZ(den)}), t2(BigQ{BigZ(n2), BigZ(den)});
      const Rat p1 = manif::smoothing_phi(t1, deg), p2 = manif::smoothing_phi(t2, deg);
      k.require("phi: monotone (exact)", p1 <= p2 && p1 >= Rat(0) && p2 <= Rat(1) && !p1.inexact && !p2.inexact, "phi not monotone / not in [0,1] on exact rationals");
      // floating: end values and monotonicity up to the rounding of the coefficient sum
      static const double coefsum[5] = {0, 5, 31, 209, 1471};
      const double allow = 4096 * kU * coefsum[deg];
      k.bound("phi(0)=0", std::fabs((double)manif::smoothing_phi(Scalar(0), deg)), 0.0 + allow, "phi(0) != 0");
      k.bound("phi(1)=1", std::fabs((double)manif::smoothing_phi(Scalar(1), deg) - 1), allow, "phi(1) != 1");
      const Scalar u1 = (Scalar)c.reals[2 * R + 3 * D + 1], u2 = (Scalar)c.reals[2 * R + 3 * D + 2];
      const Scalar lo = std::min(u1, u2), hi = std::max(u1, u2);
      k.bound("phi monotone (float)", (double)manif::smoothing_phi(lo, deg) - (double)manif::smoothing_phi(hi, deg), allow, "phi(lo) > phi(hi) beyond rounding");
      // the smooth interpolation with this degree hits its end points too
      const GroupT s0 = manif::interpolate_smooth(A, B, Scalar(0), (unsigned)deg, ta, tb), s1 = manif::interpolate_smooth(A, B, Scalar(1), (unsigned)deg, ta, tb);
      k.expect("smooth(deg): m(0)=A", (double)ref_group_err(s, ref_mat(s, toVL(s0.coeffs()), prec), MA, S), tol, "interpolate_smooth(A,B,0) != A");
      k.expect("smooth(deg): m(1)=B", (double)ref_group_err(s, ref_mat(s, toVL(s1.coeffs()), prec), MB, S), tol, "interpolate_smooth(A,B,1) != B");
    }
  }
}

vf::Outcome run_case(const vf::Case& c, const vf::RunCtx& ctx) {
  const Spec s = spec();
  Chk k(ctx);
  try {
    check(k, s, c, P_LD);
    if (k.suspicious(0.1)) { Chk k2(ctx); check(k2, s, c, P_MP); k2.o.confirmed_mp = 1; k = k2; }
  } catch (const std::exception& e) {
    k.require("nothrow", false, std::string("unexpected exception: ") + e.what());
  }
  const double t = c.reals[2 * R + 3 * D];
  const VecL d = vecL(c.reals.data() + 2 * R, D);
  bool dz = true;
  for (int i = 0; i < D; ++i) if (d(i) != 0) dz = false;
  const bool vel = c.reals[2 * R + 3 * D + 1] > 0 && c.reals[2 * R + 3 * D + 2] > 0;
  k.o.nontrivial = t > 0 && t < 1 && !dz && (c.ints[0] == 0 || vel);
  k.label(std::string("method=") + kMethodName[c.ints[0]]);
  k.label(!(t == t) ? "t=NaN" : (t < 0 ? "t<0" : (t > 1 ? "t>1" : (t == 0 || t == 1 ? "t in {0,1}" : "0<t<1"))));
  k.label("degree=" + std::to_string((int)c.ints[1]));
  return k.o;
}

}  // namespace vfp
