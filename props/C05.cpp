// C05 -- every analytic Jacobian is the true derivative on the tangent space.
#include "vf_manif.h"

using namespace vf;
using namespace vfcfg;

VF_STD_PROPERTY("C05", "rotation of the differentiated argument != 0 (when the group has one) and a linear component >= 1e-3 (when it has one); distinct = distinct (operation, argument, input bits)")

namespace vfp {

static const int kNumOps = 31;

vf::Shape shape() {
  Shape sh;
  sh.n_elems = 2;
  sh.n_tangents = 2;
  sh.n_points = 1;
  sh.tp = TP_INJ;
  sh.ep = EP_ALL;
  sh.ints = {{0, kNumOps - 1}, {0, 1}};   // operation/argument pair; 1 = request ONLY the Jacobian under test
  sh.is_float = kIsFloat;
  return sh;
}

using Jac = typename GroupT::Jacobian;
using JacAm = Eigen::Matrix<Scalar, GroupT::Dim, GroupT::DoF>;
using JacAv = Eigen::Matrix<Scalar, GroupT::Dim, GroupT::Dim>;

struct OpDesc { const char* name; Op op; int wrt; bool needs_log; };

// evaluates the analytic Jacobian of operation `idx`; fills name/op/wrt and the reference arguments
using Opt = typename GroupT::OptJacobianRef;
static bool analytic(int idx, bool only, const GroupT& X, const GroupT& Y, const TangentT& T, const TangentT& S2,
                     const typename GroupT::Vector& pt, OpDesc& d, MatL& J, VecL& a0, VecL& a1) {
  Jac Ja, Jb;
  Ja.setConstant(Scalar(7)); Jb.setConstant(Scalar(7));
  // the Jacobian under test is always requested; the other one only when `only` is false
  auto A = [&](bool under_test) { return (under_test || !only) ? Opt(Ja) : Opt{}; };
  auto B = [&](bool under_test) { return (under_test || !only) ? Opt(Jb) : Opt{}; };
  const VecL xc = toVL(X.coeffs()), yc = toVL(Y.coeffs()), t = toVL(T.coeffs()), s2 = toVL(S2.coeffs()), pv = toVL(pt);
  auto set = [&](const char* n, Op op, int wrt, bool nl, const VecL& A0, const VecL& A1, const MatL& Jm) {
    d = OpDesc{n, op, wrt, nl}; a0 = A0; a1 = A1; J = Jm;
  };
  switch (idx) {
    case 0: X.inverse(Ja); set("inverse", OP_INVERSE, 0, false, xc, xc, toML(Ja)); return true;
    case 1: X.log(Ja); set("log", OP_LOG, 0, true, xc, xc, toML(Ja)); return true;
    case 2: T.exp(Ja); set("exp", OP_EXP, 0, false, t, t, toML(Ja)); return true;
    case 3: X.compose(Y, A(true), B(false)); set("compose/a", OP_COMPOSE, 0, false, xc, yc, toML(Ja)); return true;
    case 4: X.compose(Y, A(false), B(true)); set("compose/b", OP_COMPOSE, 1, false, xc, yc, toML(Jb)); return true;
    case 5: X.between(Y, A(true), B(false)); set("between/a", OP_BETWEEN, 0, false, xc, yc, toML(Ja)); return true;
    case 6: X.between(Y, A(false), B(true)); set("between/b", OP_BETWEEN, 1, false, xc, yc, toML(Jb)); return true;
    case 7: X.rplus(T, A(true), B(false)); set("rplus/m", OP_RPLUS, 0, false, xc, t, toML(Ja)); return true;
    case 8: X.rplus(T, A(false), B(true)); set("rplus/t", OP_RPLUS, 1, false, xc, t, toML(Jb)); return true;
    case 9: X.lplus(T, A(true), B(false)); set("lplus/m", OP_LPLUS, 0, false, xc, t, toML(Ja)); return true;
    case 10: X.lplus(T, A(false), B(true)); set("lplus/t", OP_LPLUS, 1, false, xc, t, toML(Jb)); return true;
    case 11: X.plus(T, A(true), B(false)); set("plus/m", OP_RPLUS, 0, false, xc, t, toML(Ja)); return true;
    case 12: X.plus(T, A(false), B(true)); set("plus/t", OP_RPLUS, 1, false, xc, t, toML(Jb)); return true;
    case 13: X.rminus(Y, A(true), B(false)); set("rminus/a", OP_RMINUS, 0, true, xc, yc, toML(Ja)); return true;
    case 14: X.rminus(Y, A(false), B(true)); set("rminus/b", OP_RMINUS, 1, true, xc, yc, toML(Jb)); return true;
    case 15: X.lminus(Y, A(true), B(false)); set("lminus/a", OP_LMINUS, 0, true, xc, yc, toML(Ja)); return true;
    case 16: X.lminus(Y, A(false), B(true)); set("lminus/b", OP_LMINUS, 1, true, xc, yc, toML(Jb)); return true;
    case 17: X.minus(Y, A(true), B(false)); set("minus/a", OP_RMINUS, 0, true, xc, yc, toML(Ja)); return true;
    case 18: X.minus(Y, A(false), B(true)); set("minus/b", OP_RMINUS, 1, true, xc, yc, toML(Jb)); return true;
    case 19: { JacAm Jm; JacAv Jv; if (only) X.act(pt, Jm, tl::optional<Eigen::Ref<JacAv>>{}); else X.act(pt, Jm, Jv); set("act/m", OP_ACT, 0, false, xc, pv, toML(Jm)); return true; }
    case 20: { JacAm Jm; JacAv Jv; if (only) X.act(pt, tl::optional<Eigen::Ref<JacAm>>{}, Jv); else X.act(pt, Jm, Jv); set("act/v", OP_ACT, 1, false, xc, pv, toML(Jv)); return true; }
    // tangent-side forms: t.rplus(X, J_t, J_m) = X.rplus(t), t.lplus(X, J_t, J_m) = t.plus(X) = X.lplus(t)
    case 21: T.rplus(X, A(true), B(false)); set("t.rplus/t", OP_RPLUS, 1, false, xc, t, toML(Ja)); return true;
    case 22: T.rplus(X, A(false), B(true)); set("t.rplus/m", OP_RPLUS, 0, false, xc, t, toML(Jb)); return true;
    case 23: T.lplus(X, A(true), B(false)); set("t.lplus/t", OP_LPLUS, 1, false, xc, t, toML(Ja)); return true;
    case 24: T.lplus(X, A(false), B(true)); set("t.lplus/m", OP_LPLUS, 0, false, xc, t, toML(Jb)); return true;
    case 25: T.plus(X, A(true), B(false)); set("t.plus(X)/t", OP_LPLUS, 1, false, xc, t, toML(Ja)); return true;
    case 26: T.plus(X, A(false), B(true)); set("t.plus(X)/m", OP_LPLUS, 0, false, xc, t, toML(Jb)); return true;
    case 27: T.plus(S2, A(true), B(false)); set("t.plus(t)/a", OP_TPLUS, 0, false, t, s2, toML(Ja)); return true;
    case 28: T.plus(S2, A(false), B(true)); set("t.plus(t)/b", OP_TPLUS, 1, false, t, s2, toML(Jb)); return true;
    case 29: T.minus(S2, A(true), B(false)); set("t.minus(t)/a", OP_TMINUS, 0, false, t, s2, toML(Ja)); return true;
    case 30: T.minus(S2, A(false), B(true)); set("t.minus(t)/b", OP_TMINUS, 1, false, t, s2, toML(Jb)); return true;
  }
  return false;
}

vf::Outcome run_case(const vf::Case& c, const vf::RunCtx& ctx) {
  const Spec s = spec();
  Chk k(ctx);
  const int R = s.rep(), D = s.dof();
  const double* p = c.reals.data();
  const GroupT X = make_elem<GroupT>(p), Y = make_elem<GroupT>(p + R);
  const TangentT T = make_tan<GroupT>(p + 2 * R), S2 = make_tan<GroupT>(p + 2 * R + D);
  const typename GroupT::Vector pt = make_pt<GroupT>(p + 2 * R + 2 * D);
  const int idx = (int)c.ints[0];
  OpDesc d{};
  MatL J; VecL a0, a1;
  try {
    analytic(idx, c.ints[1] != 0, X, Y, T, S2, pt, d, J, a0, a1);
  } catch (const std::exception& e) {
    k.require("nothrow", false, std::string("exception: ") + e.what());
    return k.o;
  }
  k.label(std::string("op=") + d.name);
  k.label(c.ints[1] ? "only the Jacobian under test requested" : "both Jacobians requested");

  // domain: the logarithm involved must stay away from the cut (property: up to pi - 1e-6)
  LD cut_angle = 0;
  if (d.needs_log && s.has_rotation()) {
    MatL M;
    if (d.op == OP_LOG) M = ref_mat(s, a0);
    else if (d.op == OP_RMINUS) M = ref_inv(s, ref_mat(s, a1)) * ref_mat(s, a0);
    else M = ref_mat(s, a0) * ref_inv(s, ref_mat(s, a1));
    for (LD a : ref_angles_of_coeffs(s, ref_coeffs(s, M))) cut_angle = std::max(cut_angle, a);
    if (cut_angle > M_PI - 1e-6) { k.label("skipped: logarithm within 1e-6 of the cut"); k.inconclusive("outside the domain of the property"); return k.o; }
  }
  // choose the oracle precision: long double finite differences are only good for moderate coordinates
  LD big = std::max(coeff_lin_max(s, toVL(X.coeffs())), std::max(coeff_lin_max(s, toVL(Y.coeffs())), tan_lin_max(s, toVL(T.coeffs()))));
  for (int i = 0; i < (int)pt.size(); ++i) big = std::max(big, fabsl((LD)pt(i)));
  Prec prec = (big > 50 || cut_angle > M_PI - 1e-3) ? P_MP : P_LD;
  MatL Jref; LD est = 0;
  bool ok = ref_fd_jac(s, d.op, a0, a1, d.wrt, Jref, est, prec);
  auto good = [&](const MatL& Jr, LD e) { return e <= 1e-8L * std::max<LD>(1, maxabs(Jr)); };
  if ((!ok || !good(Jref, est)) && prec == P_LD) { prec = P_MP; ok = ref_fd_jac(s, d.op, a0, a1, d.wrt, Jref, est, prec); }
  if (prec == P_MP) k.o.confirmed_mp = 1;
  if (!ok || !good(Jref, est)) { k.label("oracle inconclusive"); k.inconclusive("finite-difference oracle not converged"); return k.o; }

  const bool rows_tan = d.op != OP_ACT;
  const bool cols_tan = !(d.op == OP_ACT && d.wrt == 1);
  if (J.rows() != Jref.rows() || J.cols() != Jref.cols()) { k.require("shape", false, "Jacobian shape"); return k.o; }
  // conditioning allowance: the analytic Jacobians are evaluated at rounded intermediate elements whose
  // translation-like coordinates carry an absolute error u*S (S = coordinate scale incl. the |v||t| cross
  // term of SGal3, e.g. skew(p - t v) inside an adjoint); allow 64 u S on the rows of linear type.
  MatL extra;
  if (rows_tan && cols_tan) {
    const VecL xc = toVL(X.coeffs()), yc = toVL(Y.coeffs());
    const MatL MX = ref_mat(s, xc), MY = ref_mat(s, yc), MXi = ref_inv(s, MX), MYi = ref_inv(s, MY);
    std::vector<LD> S = scale_add(ref_lin_scale_c(s, xc), ref_lin_scale_c(s, yc));
    S = scale_add(S, ref_lin_scale_t(s, toVL(T.coeffs())));
    S = scale_add(S, ref_lin_scale_c(s, ref_coeffs(s, MatL(MX * MY))));
    S = scale_add(S, ref_lin_scale_c(s, ref_coeffs(s, MatL(MXi * MY))));
    S = scale_add(S, ref_lin_scale_c(s, ref_coeffs(s, MatL(MYi * MX))));
    S = scale_add(S, ref_lin_scale_c(s, ref_coeffs(s, MatL(MX * MYi))));
    extra = lin_row_scale(s, S) * (LD)(64 * kU / kJacTol);
  }
  const MatL* ex = extra.size() ? &extra : nullptr;
  LD err = jac_block_err(s, J, Jref, rows_tan, cols_tan, ex);
  if (err > 0.1 * kJacTol && prec == P_LD) {
    // confirm in 50 digits before believing it
    MatL J2; LD e2 = 0;
    if (ref_fd_jac(s, d.op, a0, a1, d.wrt, J2, e2, P_MP) && good(J2, e2)) { Jref = J2; err = jac_block_err(s, J, Jref, rows_tan, cols_tan, ex); k.o.confirmed_mp = 1; }
  }
  k.expect(std::string("J:") + d.name, (double)err, kJacTol, std::string("analytic Jacobian of ") + d.name + " differs from the finite-difference derivative on the model");

  // classification
  const VecL& wa = d.wrt == 0 ? a0 : a1;
  LD th = 0, lin = 0;
  bool arg_is_group = (d.wrt == 0 && d.op != OP_EXP && d.op != OP_TPLUS && d.op != OP_TMINUS) ||
                      (d.wrt == 1 && (d.op == OP_COMPOSE || d.op == OP_BETWEEN || d.op == OP_RMINUS || d.op == OP_LMINUS));
  if (arg_is_group) { for (LD a : ref_angles_of_coeffs(s, wa)) th = std::max(th, a); lin = coeff_lin_max(s, wa); }
  else if ((int)wa.size() == D && !(d.op == OP_ACT)) { th = tan_theta_max(s, wa); lin = tan_lin_max(s, wa); }
  else { lin = maxabs(wa); th = 1; }
  k.label(std::string(theta_stratum((double)th, kIsFloat)));
  k.label(std::string(mag_decade((double)lin)));
  if (th > 1.5e-7 && th < 1e-2) k.label("arg rotation in (1.5e-7,1e-2)");
  if (cut_angle > M_PI - 1e-3) k.label("logarithm within 1e-3 of the cut");
  if (lin >= 1e3) k.label("|lin|>=1e3");
  bool has_lin = false;
  for (auto& e : s.e) if (e.dof() > e.nang() || e.k == K_RN) has_lin = true;
  k.o.nontrivial = (th != 0 || !s.has_rotation()) && (lin >= 1e-3 || !has_lin);
  return k.o;
}

}  // namespace vfp
