// C01 (exact part) -- compose / inverse / identity / act are exact over an exact scalar.
#include "vf_manif.h"
#ifndef VF_SCALAR_RAT
#error "C01_rat.cpp is for the rational configurations"
#endif

using namespace vf;
using namespace vfcfg;

VF_STD_PROPERTY("C01", "exact-rational operands: both rotations != identity (when the group has one) and a non-zero linear part (when it has one); distinct = distinct integer inputs")

namespace vfp {

using MatQ = Eigen::Matrix<Scalar, Eigen::Dynamic, Eigen::Dynamic>;
using VecQ = Eigen::Matrix<Scalar, Eigen::Dynamic, 1>;
static const int R = GroupT::RepSize;

vf::Shape shape() {
  Shape sh;
  // per element: every coefficient gets (numerator, denominator selector); rotations use 4 integers
  for (int e = 0; e < 3; ++e) for (int i = 0; i < R; ++i) { sh.ints.push_back({-2000, 2000}); sh.ints.push_back({0, 15}); }
  for (int i = 0; i < GroupT::Dim; ++i) { sh.ints.push_back({-100000, 100000}); sh.ints.push_back({0, 15}); }
  return sh;
}

static Scalar q_of(int64_t num, int64_t densel) {
  static const long dens[] = {1, 1, 1, 2, 3, 4, 5, 7, 8, 16, 10, 100, 1000, 997, 65536, 1000003};
  return Scalar(BigQ{BigZ(num), BigZ(dens[densel % 16])});
}

// exact homogeneous matrix from coefficients (documented layout, no normalisation)
static MatQ exact_mat(const Spec& s, const VecQ& c) {
  MatQ T = MatQ::Zero(s.msz(), s.msz());
  for (size_t b = 0; b < s.e.size(); ++b) {
    const Elem& e = s.e[b];
    const int o = s.msz_off((int)b), co = s.rep_off((int)b), n = e.msz();
    for (int i = 0; i < n; ++i) T(o + i, o + i) = Scalar(1);
    auto rot2 = [&](const Scalar& re, const Scalar& im) { T(o, o) = re; T(o, o + 1) = -im; T(o + 1, o) = im; T(o + 1, o + 1) = re; };
    auto rot3 = [&](const Scalar& x, const Scalar& y, const Scalar& z, const Scalar& w) {
      const Scalar two(2), one(1);
      T(o, o) = one - two * (y * y + z * z); T(o, o + 1) = two * (x * y - z * w); T(o, o + 2) = two * (x * z + y * w);
      T(o + 1, o) = two * (x * y + z * w); T(o + 1, o + 1) = one - two * (x * x + z * z); T(o + 1, o + 2) = two * (y * z - x * w);
      T(o + 2, o) = two * (x * z - y * w); T(o + 2, o + 1) = two * (y * z + x * w); T(o + 2, o + 2) = one - two * (x * x + y * y);
    };
    switch (e.k) {
      case K_SO2: rot2(c(co), c(co + 1)); break;
      case K_SE2: rot2(c(co + 2), c(co + 3)); T(o, o + 2) = c(co); T(o + 1, o + 2) = c(co + 1); break;
      case K_SO3: rot3(c(co), c(co + 1), c(co + 2), c(co + 3)); break;
      case K_SE3: rot3(c(co + 3), c(co + 4), c(co + 5), c(co + 6)); for (int i = 0; i < 3; ++i) T(o + i, o + 3) = c(co + i); break;
      case K_SE23: rot3(c(co + 3), c(co + 4), c(co + 5), c(co + 6));
        for (int i = 0; i < 3; ++i) { T(o + i, o + 3) = c(co + i); T(o + i, o + 4) = c(co + 7 + i); } break;
      case K_SGAL3: rot3(c(co + 3), c(co + 4), c(co + 5), c(co + 6));
        for (int i = 0; i < 3; ++i) { T(o + i, o + 4) = c(co + i); T(o + i, o + 3) = c(co + 7 + i); }
        T(o + 3, o + 4) = c(co + 10); break;
      case K_RN: for (int i = 0; i < e.n; ++i) T(o + i, o + e.n) = c(co + i); break;
    }
  }
  return T;
}

// element with exactly-unit rational rotation parts from integers
static GroupT build(const Spec& s, const int64_t* iv, bool& rot_identity, bool& lin_zero) {
  typename GroupT::DataType d;
  rot_identity = false; lin_zero = true;
  for (size_t b = 0; b < s.e.size(); ++b) {
    const Elem& e = s.e[b];
    const int co = s.rep_off((int)b);
    for (int i = 0; i < e.rep(); ++i) {
      bool is_rot = e.k != K_RN && i >= e.rot0() && i < e.rot0() + e.nrot();
      if (!is_rot) { d(co + i) = q_of(iv[2 * (co + i)], iv[2 * (co + i) + 1]); if (d(co + i) != Scalar(0)) lin_zero = false; }
    }
    if (e.k == K_RN) continue;
    const int ro = co + e.rot0();
    if (e.nrot() == 2) {
      BigZ a(iv[2 * ro]), bb(iv[2 * (ro + 1)]);
      BigZ n = a * a + bb * bb;
      if (n == 0) { d(ro) = Scalar(1); d(ro + 1) = Scalar(0); rot_identity = true; }
      else { d(ro) = Scalar(BigQ{a * a - bb * bb, n}); d(ro + 1) = Scalar(BigQ{2 * a * bb, n}); if (bb == 0) rot_identity = true; }
    } else {
      BigZ a(iv[2 * ro]), bb(iv[2 * (ro + 1)]), cc(iv[2 * (ro + 2)]), dd(iv[2 * (ro + 3)]);
      BigZ n = a * a + bb * bb + cc * cc + dd * dd;
      if (n == 0) { d(ro) = d(ro + 1) = d(ro + 2) = Scalar(0); d(ro + 3) = Scalar(1); rot_identity = true; }
      else {
        d(ro) = Scalar(BigQ{2 * dd * a, n}); d(ro + 1) = Scalar(BigQ{2 * dd * bb, n}); d(ro + 2) = Scalar(BigQ{2 * dd * cc, n});
        d(ro + 3) = Scalar(BigQ{dd * dd - a * a - bb * bb - cc * cc, n});
        if (a == 0 && bb == 0 && cc == 0) rot_identity = true;
        if (dd == 0) rot_identity = false;   // rotation by pi, w = 0... (-1 quaternion when a=b=c=0 handled above)
      }
    }
  }
  return GroupT(d);
}

template <class M> static bool all_exact(const M& m) {
  for (int i = 0; i < m.rows(); ++i) for (int j = 0; j < m.cols(); ++j) if (m(i, j).inexact) return false;
  return true;
}
template <class A, class B> static bool eq(const A& a, const B& b) {
  if (a.rows() != b.rows() || a.cols() != b.cols()) return false;
  for (int i = 0; i < a.rows(); ++i) for (int j = 0; j < a.cols(); ++j) if (a(i, j) != b(i, j)) return false;
  return true;
}

vf::Outcome run_case(const vf::Case& c, const vf::RunCtx& ctx) {
  const Spec s = spec();
  Chk k(ctx);
  try {
    bool ri[3], lz[3];
    const GroupT X = build(s, c.ints.data(), ri[0], lz[0]);
    const GroupT Y = build(s, c.ints.data() + 2 * R, ri[1], lz[1]);
    const GroupT Z = build(s, c.ints.data() + 4 * R, ri[2], lz[2]);
    typename GroupT::Vector pt;
    for (int i = 0; i < GroupT::Dim; ++i) pt(i) = q_of(c.ints[6 * R + 2 * i], c.ints[6 * R + 2 * i + 1]);
    const MatQ MX = exact_mat(s, VecQ(X.coeffs())), MY = exact_mat(s, VecQ(Y.coeffs())), MZ = exact_mat(s, VecQ(Z.coeffs()));
    const MatQ I = MatQ::Identity(s.msz(), s.msz());

    const GroupT XY = X.compose(Y);
    k.require("compose.exact_bit", all_exact(XY.coeffs()), "X.compose(Y) used inexact arithmetic");
    k.require("compose", eq(exact_mat(s, VecQ(XY.coeffs())), MatQ(MX * MY)), "Mat(X.compose(Y)) != Mat(X)*Mat(Y) exactly");
    k.require("operator*", eq((X * Y).coeffs(), XY.coeffs()), "X*Y != X.compose(Y)");
    const GroupT Xi = X.inverse();
    k.require("inverse.exact_bit", all_exact(Xi.coeffs()), "X.inverse() used inexact arithmetic");
    const MatQ MXi = exact_mat(s, VecQ(Xi.coeffs()));
    k.require("inverse.left", eq(MatQ(MXi * MX), I), "Mat(X^-1)*Mat(X) != I exactly");
    k.require("inverse.right", eq(MatQ(MX * MXi), I), "Mat(X)*Mat(X^-1) != I exactly");
    const GroupT Id = GroupT::Identity();
    k.require("Identity", eq(exact_mat(s, VecQ(Id.coeffs())), I) && all_exact(Id.coeffs()), "Identity() is not exactly the identity");
    k.require("X*I=X", eq((X * Id).coeffs(), X.coeffs()) && eq((Id * X).coeffs(), X.coeffs()), "identity not neutral exactly");
    k.require("X*X^-1=I", eq(exact_mat(s, VecQ((X * Xi).coeffs())), I) && eq(exact_mat(s, VecQ((Xi * X).coeffs())), I), "inverse not two-sided exactly");
    k.require("assoc", eq(exact_mat(s, VecQ(((X * Y) * Z).coeffs())), exact_mat(s, VecQ((X * (Y * Z)).coeffs()))), "(X*Y)*Z != X*(Y*Z) exactly");
    {
      const auto got = X.act(pt);
      // embed
      VecQ h = VecQ::Zero(s.msz());
      for (size_t b = 0; b < s.e.size(); ++b) {
        const Elem& e = s.e[b];
        int o = s.msz_off((int)b), po = s.dim_off((int)b);
        for (int i = 0; i < e.dim(); ++i) h(o + i) = pt(po + i);
        if (e.k == K_SE23) h(o + 3) = Scalar(1); else if (e.k == K_SGAL3) h(o + 4) = Scalar(1); else h(o + e.msz() - 1) = Scalar(1);
      }
      const VecQ r = MX * h;
      bool same = true;
      for (size_t b = 0; b < s.e.size(); ++b) for (int i = 0; i < s.e[b].dim(); ++i)
        if (got(s.dim_off((int)b) + i) != r(s.msz_off((int)b) + i)) same = false;
      k.require("act", same, "X.act(p) != Mat(X)*(p;1) exactly");
      k.require("act.exact_bit", all_exact(got), "X.act(p) used inexact arithmetic");
    }
    {
      const MatQ T = X.transform();
      k.require("transform", eq(T, MX), "X.transform() != Mat(X) exactly");
      k.require("transform.exact_bit", all_exact(T), "X.transform() used inexact arithmetic");
    }
    k.o.nontrivial = (!s.has_rotation() || (!ri[0] && !ri[1])) && (!(R > 0 && [&] { for (auto& e : s.e) if (e.rep() > e.nrot() || e.k == K_RN) return true; return false; }()) || (!lz[0] && !lz[1]));
  } catch (const std::exception& e) {
    k.require("nothrow", false, std::string("exception: ") + e.what());
  }
  return k.o;
}

}  // namespace vfp
