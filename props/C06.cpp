// C06 -- rjac/ljac, their inverses, Adj and adj satisfy their defining identities.
#include "vf_manif.h"

using namespace vf;
using namespace vfcfg;

VF_STD_PROPERTY("C06", "theta != 0 (when the group has a rotation) and a linear component >= 1e-3 (when it has one); distinct = distinct input bit patterns")

namespace vfp {

vf::Shape shape() {
  Shape sh;
  sh.n_elems = 2;
  sh.n_tangents = 2;
  sh.tp = TP_INJ;
  sh.ep = EP_ALL;
  sh.is_float = kIsFloat;
  return sh;
}

static MatL ident(int n) { return MatL::Identity(n, n); }

static void check(Chk& k, const Spec& s, const Case& c, Prec prec) {
  const int R = s.rep(), D = s.dof();
  const double* p = c.reals.data();
  const VecL xc = vecL(p, R), yc = vecL(p + R, R), t = vecL(p + 2 * R, D), sv = vecL(p + 2 * R + D, D);
  const GroupT X = make_elem<GroupT>(p), Y = make_elem<GroupT>(p + R);
  const TangentT T = make_tan<GroupT>(p + 2 * R), Sv = make_tan<GroupT>(p + 2 * R + D);
  const double tol = kJacTol;

  const MatL Jr = toML(T.rjac()), Jl = toML(T.ljac()), Jri = toML(T.rjacinv()), Jli = toML(T.ljacinv());
  const MatL Jl_ref = ref_Jl(s, t, prec), Jr_ref = ref_Jr(s, t, prec);

  k.expect("rjac=series", (double)jac_block_err(s, Jr, Jr_ref), tol, "t.rjac() != sum (-ad_t)^k/(k+1)!");
  k.expect("ljac=series", (double)jac_block_err(s, Jl, Jl_ref), tol, "t.ljac() != sum ad_t^k/(k+1)!");
  {
    const MatL Jl2 = toML((-T).rjac());
    k.expect("ljac=(-t).rjac", (double)jac_block_err(s, Jl, Jl2), tol, "t.ljac() != (-t).rjac()");
  }
  k.expect("rjacinv*rjac=I", (double)prod_block_err(s, Jri, Jr, ident(D)), tol, "rjacinv*rjac != I");
  k.expect("rjac*rjacinv=I", (double)prod_block_err(s, Jr, Jri, ident(D)), tol, "rjac*rjacinv != I");
  k.expect("ljacinv*ljac=I", (double)prod_block_err(s, Jli, Jl, ident(D)), tol, "ljacinv*ljac != I");
  k.expect("ljac*ljacinv=I", (double)prod_block_err(s, Jl, Jli, ident(D)), tol, "ljac*ljacinv != I");
  k.expect("rjacinv=inv(series)", (double)jac_block_err(s, Jri, ref_matinv(Jr_ref, prec)), tol, "t.rjacinv() != (sum (-ad)^k/(k+1)!)^-1");
  k.expect("ljacinv=inv(series)", (double)jac_block_err(s, Jli, ref_matinv(Jl_ref, prec)), tol, "t.ljacinv() != (sum ad^k/(k+1)!)^-1");

  // adjoint of an element: X.adj() s = vee(X hat(s) X^-1)
  const MatL MX = ref_mat(s, xc, prec), MY = ref_mat(s, yc, prec);
  const MatL AdX = toML(X.adj()), AdY = toML(Y.adj());
  const MatL AdX_ref = ref_Adj(s, MX, prec);
  const MatL scX = lin_row_scale(s, ref_lin_scale_c(s, xc));
  k.expect("Adj=conjugation", (double)jac_block_err(s, AdX, AdX_ref, true, true, &scX), tol, "X.adj() != matrix of s -> vee(X hat(s) X^-1)");
  {
    const VecL lhs = AdX * sv;
    const VecL rhs = ref_vee(s, MatL(MX * ref_hat(s, sv) * ref_inv(s, MX, prec)));
    LD sc = 1;
    for (int i = 0; i < D; ++i) sc = std::max(sc, fabsl(rhs(i)));
    k.expect("Adj*s", (double)((lhs - rhs).cwiseAbs().maxCoeff() / sc), tol, "X.adj()*s != vee(X hat(s) X^-1)");
  }
  // Adj(X Y) = Adj(X) Adj(Y)
  {
    const MatL AdXY = toML((X * Y).adj());
    { const MatL sc = AdX.cwiseAbs() * AdY.cwiseAbs() + lin_row_scale(s, ref_lin_scale_c(s, toVL((X * Y).coeffs())));
    k.expect("Adj(XY)=Adj(X)Adj(Y)", (double)jac_block_err(s, AdXY, MatL(AdX * AdY), true, true, &sc), tol, "Adj(X*Y) != Adj(X)*Adj(Y)"); }
  }
  // Adj(exp t) = exp(ad_t) = ljac * rjacinv
  {
    const MatL ad = ref_ad(s, t);
    const MatL Eref = ref_expm(ad, prec);
    const MatL AdE = toML(T.exp().adj());
    const MatL scT = lin_row_scale(s, ref_lin_scale_t(s, t));
    k.expect("Adj(exp t)=exp(ad t)", (double)jac_block_err(s, AdE, Eref, true, true, &scT), tol, "Adj(exp t) != exp(ad_t)");
    k.expect("ljac*rjacinv=exp(ad t)", (double)prod_block_err(s, Jl, Jri, Eref), tol, "ljac*rjacinv != exp(ad_t)");
    // smallAdj is ad_t: t.smallAdj()*s = vee([hat t, hat s])
    const MatL sad = toML(T.smallAdj());
    LD tm = 1;
    for (int i = 0; i < D; ++i) tm = std::max(tm, fabsl(t(i)));
    k.expect("smallAdj=ad", (double)((sad - ad).cwiseAbs().maxCoeff() / tm), 4 * kU, "t.smallAdj() != ad_t");
    const MatL Ht = ref_hat(s, t), Hs = ref_hat(s, sv);
    const VecL br = ref_vee(s, MatL(Ht * Hs - Hs * Ht));
    const VecL got = sad * sv;
    LD sc = 1;
    for (int i = 0; i < D; ++i) sc = std::max(sc, fabsl(br(i)));
    k.expect("smallAdj*s=bracket", (double)((got - br).cwiseAbs().maxCoeff() / sc), kValTol, "t.smallAdj()*s != vee([hat t, hat s])");
  }
}

vf::Outcome run_case(const vf::Case& c, const vf::RunCtx& ctx) {
  const Spec s = spec();
  Chk k(ctx);
  check(k, s, c, P_LD);
  if (k.suspicious(0.1)) {
    Chk k2(ctx);
    check(k2, s, c, P_MP);
    k2.o.confirmed_mp = 1;
    k = k2;
  }
  const int R = s.rep(), D = s.dof();
  const VecL t = vecL(c.reals.data() + 2 * R, D);
  const LD th = tan_theta_max(s, t), lin = tan_lin_max(s, t);
  k.label(std::string(theta_stratum((double)th, kIsFloat)));
  k.label(std::string(mag_decade((double)lin)));
  bool has_lin = false;
  for (auto& e : s.e) if (e.dof() > e.nang() || e.k == K_RN) has_lin = true;
  k.o.nontrivial = (th != 0 || !s.has_rotation()) && (lin >= 1e-3 || !has_lin);
  return k.o;
}

}  // namespace vfp
