// C09 -- optional outputs are transparent; operations are pure and deterministic.
#include "vf_manif.h"
#include <cstring>

using namespace vf;
using namespace vfcfg;

VF_STD_PROPERTY("C09", "every case evaluates each operation under every subset of its optional outputs, including the strict non-empty subsets that the test-suite never requests; non-trivial: operands not the identity / zero; distinct = distinct input bit patterns")

namespace vfp {

static const int D = GroupT::DoF, R = GroupT::RepSize, N = GroupT::Dim;
using Jac = typename GroupT::Jacobian;
using Opt = typename GroupT::OptJacobianRef;
using JacAm = Eigen::Matrix<Scalar, GroupT::Dim, GroupT::DoF>;
using JacAv = Eigen::Matrix<Scalar, GroupT::Dim, GroupT::Dim>;

vf::Shape shape() {
  Shape sh;
  sh.n_elems = 2;
  sh.n_tangents = 1;
  sh.n_points = 1;
  sh.tp = TP_INJ;
  sh.ep = EP_MODERATE;
  sh.ints = {{0, 3}, {0, 5}, {0, 7}};   // block offsets inside the larger matrix, activity selector
  sh.scalars = {SK_SIGNED_MAG};        // fill pattern
  sh.is_float = kIsFloat;
  return sh;
}

template <class A, class B> static bool bits_eq(const A& a, const B& b) {
  if (a.rows() != b.rows() || a.cols() != b.cols()) return false;
  for (int i = 0; i < a.rows(); ++i) for (int j = 0; j < a.cols(); ++j) {
    const Scalar x = a(i, j), y = b(i, j);
    if (std::memcmp(&x, &y, sizeof(Scalar)) != 0) return false;
  }
  return true;
}

// an operation with two optional DxD Jacobian outputs returning a coefficient vector
template <class F> static void two_out(Chk& k, const std::string& name, F f, int r0, int c0, Scalar fill) {
  using Vec = decltype(f(Opt{}, Opt{}));
  Jac a11, b11, a10, b01;
  a11.setConstant(fill); b11.setConstant(fill); a10.setConstant(fill); b01.setConstant(fill);
  const Vec v00 = f(Opt{}, Opt{});
  const Vec v11 = f(a11, b11);
  const Vec v10 = f(a10, Opt{});
  const Vec v01 = f(Opt{}, b01);
  k.require(name + ":value", bits_eq(v00, v11) && bits_eq(v00, v10) && bits_eq(v00, v01), name + ": returned value depends on which Jacobians are requested");
  k.require(name + ":Ja", bits_eq(a11, a10), name + ": first Jacobian depends on whether the second is requested");
  k.require(name + ":Jb", bits_eq(b11, b01), name + ": second Jacobian depends on whether the first is requested");
  // outputs bound to a block of a larger matrix
  Eigen::Matrix<Scalar, D + 3, D + 5> big, big0;
  big.setConstant(fill); big0 = big;
  Eigen::Matrix<Scalar, D + 5, D + 3> big2, big20;
  big2.setConstant(fill); big20 = big2;
  const Vec vb = f(big.template block<D, D>(r0, c0), big2.template block<D, D>(c0, r0));
  k.require(name + ":value(block)", bits_eq(v00, vb), name + ": value differs when outputs are bound to blocks");
  k.require(name + ":Ja(block)", bits_eq(big.template block<D, D>(r0, c0), a11), name + ": Jacobian written into a block differs");
  k.require(name + ":Jb(block)", bits_eq(big2.template block<D, D>(c0, r0), b11), name + ": Jacobian written into a block differs");
  big.template block<D, D>(r0, c0) = big0.template block<D, D>(r0, c0);
  big2.template block<D, D>(c0, r0) = big20.template block<D, D>(c0, r0);
  k.require(name + ":outside(block)", bits_eq(big, big0) && bits_eq(big2, big20), name + ": wrote outside the bound block");
  // determinism: a second evaluation is bit-identical
  Jac a2, b2; a2.setConstant(fill); b2.setConstant(fill);
  const Vec v2 = f(a2, b2);
  k.require(name + ":repeat", bits_eq(v2, v11) && bits_eq(a2, a11) && bits_eq(b2, b11), name + ": repeated call returned a different result");
}
template <class F> static void one_out(Chk& k, const std::string& name, F f, int r0, int c0, Scalar fill) {
  two_out(k, name, [&](Opt a, Opt) { return f(a); }, r0, c0, fill);
}

static void other_activity(int sel, const GroupT& X, const GroupT& Y, const TangentT& T) {
  // arbitrary other library calls between two evaluations (results discarded)
  volatile double sink = 0;
  switch (sel % 8) {
    case 0: sink = (double)GroupT::Identity().coeffs()(0); break;
    case 1: sink = (double)TangentT::Zero().coeffs()(0); sink = (double)TangentT::InnerWeights()(0, 0); break;
    case 2: for (int i = 0; i < D; ++i) sink = (double)TangentT::Generator(i)(0, 0); break;
    case 3: sink = (double)(Y * X).log().coeffs()(0); break;
    case 4: sink = (double)GroupT::Random().coeffs()(0); sink = (double)TangentT::Random().coeffs()(0); break;
    case 5: { Jac a, b; sink = (double)Y.rminus(X, a, b).coeffs()(0); sink = (double)(-T).exp(a).coeffs()(0); } break;
    case 6: sink = (double)T.rjacinv()(0, 0); sink = (double)X.adj()(0, 0); sink = (double)T.smallAdj()(0, 0); break;
    default: { GroupT Z = Y; Z.setIdentity(); Z += T; Z *= X; sink = (double)Z.coeffs()(0); } break;
  }
  (void)sink;
}

vf::Outcome run_case(const vf::Case& c, const vf::RunCtx& ctx) {
  const Spec s = spec();
  Chk k(ctx);
  const double* p = c.reals.data();
  try {
    const GroupT X = make_elem<GroupT>(p), Y = make_elem<GroupT>(p + R);
    const TangentT T = make_tan<GroupT>(p + 2 * R);
    const typename GroupT::Vector pt = make_pt<GroupT>(p + 2 * R + D);
    Scalar fill = (Scalar)c.reals[2 * R + D + N];
    if (fill == Scalar(0)) fill = Scalar(-7.25);
    const int r0 = (int)c.ints[0], c0 = (int)c.ints[1], act = (int)c.ints[2];
    const GroupT X0 = X, Y0 = Y; const TangentT T0 = T; const typename GroupT::Vector pt0 = pt;

    one_out(k, "inverse", [&](Opt a) { return typename GroupT::DataType(X.inverse(a).coeffs()); }, r0, c0, fill);
    one_out(k, "log", [&](Opt a) { return typename TangentT::DataType(X.log(a).coeffs()); }, r0, c0, fill);
    one_out(k, "exp", [&](Opt a) { return typename GroupT::DataType(T.exp(a).coeffs()); }, r0, c0, fill);
    two_out(k, "compose", [&](Opt a, Opt b) { return typename GroupT::DataType(X.compose(Y, a, b).coeffs()); }, r0, c0, fill);
    two_out(k, "between", [&](Opt a, Opt b) { return typename GroupT::DataType(X.between(Y, a, b).coeffs()); }, r0, c0, fill);
    two_out(k, "rplus", [&](Opt a, Opt b) { return typename GroupT::DataType(X.rplus(T, a, b).coeffs()); }, r0, c0, fill);
    two_out(k, "lplus", [&](Opt a, Opt b) { return typename GroupT::DataType(X.lplus(T, a, b).coeffs()); }, r0, c0, fill);
    two_out(k, "plus", [&](Opt a, Opt b) { return typename GroupT::DataType(X.plus(T, a, b).coeffs()); }, r0, c0, fill);
    two_out(k, "rminus", [&](Opt a, Opt b) { return typename TangentT::DataType(X.rminus(Y, a, b).coeffs()); }, r0, c0, fill);
    two_out(k, "lminus", [&](Opt a, Opt b) { return typename TangentT::DataType(X.lminus(Y, a, b).coeffs()); }, r0, c0, fill);
    two_out(k, "minus", [&](Opt a, Opt b) { return typename TangentT::DataType(X.minus(Y, a, b).coeffs()); }, r0, c0, fill);
    two_out(k, "t.rplus(X)", [&](Opt a, Opt b) { return typename GroupT::DataType(T.rplus(X, a, b).coeffs()); }, r0, c0, fill);
    two_out(k, "t.lplus(X)", [&](Opt a, Opt b) { return typename GroupT::DataType(T.lplus(X, a, b).coeffs()); }, r0, c0, fill);
    two_out(k, "t.plus(t)", [&](Opt a, Opt b) { return typename TangentT::DataType(T.plus(T0, a, b).coeffs()); }, r0, c0, fill);
    two_out(k, "t.minus(t)", [&](Opt a, Opt b) { return typename TangentT::DataType(T.minus(T0, a, b).coeffs()); }, r0, c0, fill);
    // act: outputs of different shapes
    {
      using OA = tl::optional<Eigen::Ref<JacAm>>; using OV = tl::optional<Eigen::Ref<JacAv>>;
      JacAm m11, m10; JacAv v11, v01; m11.setConstant(fill); m10.setConstant(fill); v11.setConstant(fill); v01.setConstant(fill);
      const auto r00 = X.act(pt), r11 = X.act(pt, m11, v11), r10 = X.act(pt, m10, OV{}), r01 = X.act(pt, OA{}, v01);
      k.require("act:value", bits_eq(r00, r11) && bits_eq(r00, r10) && bits_eq(r00, r01), "act: value depends on requested Jacobians");
      k.require("act:Jm", bits_eq(m11, m10), "act: J_m depends on whether J_v is requested");
      k.require("act:Jv", bits_eq(v11, v01), "act: J_v depends on whether J_m is requested");
      Eigen::Matrix<Scalar, GroupT::Dim + 3, GroupT::DoF + 5> big, big0; big.setConstant(fill); big0 = big;
      const auto rb = X.act(pt, big.template block<GroupT::Dim, GroupT::DoF>(r0, c0), OV{});
      k.require("act:Jm(block)", bits_eq(rb, r00) && bits_eq(big.template block<GroupT::Dim, GroupT::DoF>(r0, c0), m11), "act: J_m written into a block differs");
      big.template block<GroupT::Dim, GroupT::DoF>(r0, c0) = big0.template block<GroupT::Dim, GroupT::DoF>(r0, c0);
      k.require("act:outside(block)", bits_eq(big, big0), "act: wrote outside the bound block");
    }
    // arguments are never modified
    k.require("operands.unchanged", bits_eq(X.coeffs(), X0.coeffs()) && bits_eq(Y.coeffs(), Y0.coeffs()) && bits_eq(T.coeffs(), T0.coeffs()) && bits_eq(pt, pt0),
              "an operation modified one of its arguments");
    // no dependence on earlier calls
    {
      Jac a1, b1, a2, b2;
      const GroupT r1 = X.compose(Y, a1, b1); const TangentT l1 = X.rminus(Y); const GroupT e1 = T.exp(); const Jac j1 = T.rjac(); const Jac ad1 = X.adj();
      other_activity(act, X, Y, T); other_activity(act + 3, Y, X, T);
      const GroupT r2 = X.compose(Y, a2, b2); const TangentT l2 = X.rminus(Y); const GroupT e2 = T.exp(); const Jac j2 = T.rjac(); const Jac ad2 = X.adj();
      k.require("history.independent", bits_eq(r1.coeffs(), r2.coeffs()) && bits_eq(a1, a2) && bits_eq(b1, b2) && bits_eq(l1.coeffs(), l2.coeffs()) &&
                bits_eq(e1.coeffs(), e2.coeffs()) && bits_eq(j1, j2) && bits_eq(ad1, ad2), "a result changed after unrelated library activity");
    }
    // aliasing: results assigned back onto an operand equal the unaliased computation
    {
      const GroupT XX = X * X, Xi = X.inverse(), Xb = X.between(X), XT = X + T, XY = X * Y;
      { GroupT Z = X; Z = Z * Z; k.require("alias:X=X*X", bits_eq(Z.coeffs(), XX.coeffs()), "X = X*X differs from the unaliased product"); }
      { GroupT Z = X; Z *= Z; k.require("alias:X*=X", bits_eq(Z.coeffs(), XX.coeffs()), "X *= X differs from the unaliased product"); }
      { GroupT Z = X; Z = Z.inverse(); k.require("alias:X=X.inverse()", bits_eq(Z.coeffs(), Xi.coeffs()), "X = X.inverse() differs"); }
      { GroupT Z = X; Z = Z.between(Z); k.require("alias:X=X.between(X)", bits_eq(Z.coeffs(), Xb.coeffs()), "X = X.between(X) differs"); }
      { GroupT Z = X; Z += T; k.require("alias:X+=t", bits_eq(Z.coeffs(), XT.coeffs()), "X += t differs from X + t"); }
      // through views over a user buffer
      std::vector<Scalar> buf(R + 2, fill), buf2(R + 2, fill);
      for (int i = 0; i < R; ++i) { buf[i + 1] = X.coeffs()(i); buf2[i + 1] = Y.coeffs()(i); }
      { Eigen::Map<GroupT> m(buf.data() + 1); m += T; k.require("alias:view+=t", bits_eq(m.coeffs(), XT.coeffs()), "view += t differs from X + t"); }
      for (int i = 0; i < R; ++i) buf[i + 1] = X.coeffs()(i);
      { Eigen::Map<GroupT> m(buf.data() + 1); m *= m; k.require("alias:view*=view", bits_eq(m.coeffs(), XX.coeffs()), "view *= view differs from X*X"); }
      for (int i = 0; i < R; ++i) buf[i + 1] = X.coeffs()(i);
      { Eigen::Map<GroupT> m(buf.data() + 1); Eigen::Map<const GroupT> my(buf2.data() + 1); m = m * my; k.require("alias:view=view*view", bits_eq(m.coeffs(), XY.coeffs()), "view = view*other differs from X*Y"); }
      k.require("alias:guards", buf[0] == fill && buf[R + 1] == fill && buf2[0] == fill && buf2[R + 1] == fill, "a view operation wrote outside its buffer");
      { TangentT U = T; U = U + U; TangentT V = T; V += V; k.require("alias:t+=t", bits_eq(U.coeffs(), V.coeffs()), "t += t differs from t + t"); }
      // in-place tangent updates whose right-hand side is an Eigen expression reading the same tangent
      {
        const Jac A = X.adj();
        const typename TangentT::DataType prod = A * T.coeffs();
        const TangentT plus_ref(typename TangentT::DataType(T.coeffs() + prod)), minus_ref(typename TangentT::DataType(T.coeffs() - prod)), asg_ref(prod);
        { TangentT V = T; V += A * V.coeffs(); k.require("alias:t+=A*t", bits_eq(V.coeffs(), plus_ref.coeffs()), "t += A*t.coeffs() differs from the unaliased t + A*t"); }
        { TangentT V = T; V -= A * V.coeffs(); k.require("alias:t-=A*t", bits_eq(V.coeffs(), minus_ref.coeffs()), "t -= A*t.coeffs() differs from the unaliased t - A*t"); }
        { TangentT V = T; V = A * V.coeffs(); k.require("alias:t=A*t", bits_eq(V.coeffs(), asg_ref.coeffs()), "t = A*t.coeffs() differs from the unaliased product"); }
        std::vector<Scalar> tb(D + 2, fill);
        auto reset = [&]() { for (int i = 0; i < D; ++i) tb[i + 1] = T.coeffs()(i); };
        reset(); { Eigen::Map<TangentT> m(tb.data() + 1); m += A * m.coeffs(); k.require("alias:view+=A*view", bits_eq(m.coeffs(), plus_ref.coeffs()), "tangent view += A*view differs from the unaliased computation"); }
        reset(); { Eigen::Map<TangentT> m(tb.data() + 1); m -= A * m.coeffs(); k.require("alias:view-=A*view", bits_eq(m.coeffs(), minus_ref.coeffs()), "tangent view -= A*view differs from the unaliased computation"); }
        reset(); { Eigen::Map<TangentT> m(tb.data() + 1); m = A * m.coeffs(); k.require("alias:view=A*view", bits_eq(m.coeffs(), asg_ref.coeffs()), "tangent view = A*view differs from the unaliased product"); }
        k.require("alias:tangent guards", tb[0] == fill && tb[D + 1] == fill, "a tangent view operation wrote outside its buffer");
      }
    }
    bool xid = bits_eq(X.coeffs(), GroupT::Identity().coeffs()), tz = T.coeffs().isZero(0);
    k.o.nontrivial = !xid && !tz;
  } catch (const std::exception& e) {
    k.require("nothrow", false, std::string("exception: ") + e.what());
  }
  return k.o;
}

}  // namespace vfp
