// C10 -- views over external memory behave exactly like owning objects.
// Built with AddressSanitizer/UBSan: views are placed over exact-size heap blocks (reads outside are
// reported by ASan) and over guarded buffers (writes outside are detected by comparing guard bytes).
#include "vf_manif.h"
#include <cstring>
#include <memory>

using namespace vf;
using namespace vfcfg;

VF_STD_PROPERTY("C10", "every case uses views as left and right operands of every operation and writes through a mutable view; non-trivial: operands not identity/zero and buffer mis-aligned (offset 1 scalar); distinct = distinct input bit patterns")

namespace vfp {

static const int D = GroupT::DoF, R = GroupT::RepSize, N = GroupT::Dim;
using Jac = typename GroupT::Jacobian;
using MapG = Eigen::Map<GroupT>;
using MapCG = Eigen::Map<const GroupT>;
using MapT = Eigen::Map<TangentT>;
using MapCT = Eigen::Map<const TangentT>;

vf::Shape shape() {
  Shape sh;
  sh.n_elems = 2;
  sh.n_tangents = 2;
  sh.n_points = 1;
  sh.tp = TP_INJ;
  sh.ep = EP_MODERATE;
  sh.ints = {{0, 1}, {0, 9}};   // buffer offset in scalars (0 aligned / 1 mis-aligned), write-op selector
  sh.scalars = {SK_SIGNED_MAG};
  sh.is_float = kIsFloat;
  return sh;
}

struct Item { std::string name; std::vector<double> v; };
template <class M> static void put(std::vector<Item>& out, const std::string& n, const M& m) {
  Item it; it.name = n;
  for (int i = 0; i < m.rows(); ++i) for (int j = 0; j < m.cols(); ++j) it.v.push_back((double)m(i, j));
  out.push_back(it);
}
static void puts(std::vector<Item>& out, const std::string& n, double x) { Item it; it.name = n; it.v.push_back(x); out.push_back(it); }

// every read-only operation of the common API on operands of arbitrary storage kind
template <class GX, class GY, class TT, class TU>
static std::vector<Item> read_ops(const GX& X, const GY& Y, const TT& T, const TU& U, const typename GroupT::Vector& pt) {
  std::vector<Item> o;
  Jac a, b;
  put(o, "coeffs", X.coeffs()); puts(o, "operator[]", (double)X[0]); puts(o, "size", (double)X.size());
  put(o, "inverse", X.inverse(a).coeffs()); put(o, "J:inverse", a);
  put(o, "log", X.log(a).coeffs()); put(o, "J:log", a);
  put(o, "compose", X.compose(Y, a, b).coeffs()); put(o, "J:compose/a", a); put(o, "J:compose/b", b);
  put(o, "X*Y", (X * Y).coeffs());
  put(o, "between", X.between(Y, a, b).coeffs()); put(o, "J:between/a", a); put(o, "J:between/b", b);
  put(o, "rplus", X.rplus(T, a, b).coeffs()); put(o, "J:rplus/m", a); put(o, "J:rplus/t", b);
  put(o, "lplus", X.lplus(T, a, b).coeffs()); put(o, "J:lplus/m", a); put(o, "J:lplus/t", b);
  put(o, "X+t", (X + T).coeffs());
  put(o, "rminus", X.rminus(Y, a, b).coeffs()); put(o, "J:rminus/a", a); put(o, "J:rminus/b", b);
  put(o, "lminus", X.lminus(Y, a, b).coeffs()); put(o, "J:lminus/a", a); put(o, "J:lminus/b", b);
  put(o, "X-Y", (X - Y).coeffs());
  {
    Eigen::Matrix<Scalar, GroupT::Dim, GroupT::DoF> jm; Eigen::Matrix<Scalar, GroupT::Dim, GroupT::Dim> jv;
    put(o, "act", X.act(pt, jm, jv)); put(o, "J:act/m", jm); put(o, "J:act/v", jv);
  }
  put(o, "adj", X.adj());
  put(o, "transform", X.transform());
  puts(o, "isApprox(X,X)", X.isApprox(X) ? 1 : 0); puts(o, "isApprox(X,Y)", X.isApprox(Y, Scalar(1e-3)) ? 1 : 0); puts(o, "X==Y", (X == Y) ? 1 : 0);
  put(o, "cast", X.template cast<double>().coeffs());
  // tangent side
  put(o, "t.coeffs", T.coeffs()); puts(o, "t[]", (double)T[0]);
  put(o, "exp", T.exp(a).coeffs()); put(o, "J:exp", a);
  put(o, "hat", T.hat()); put(o, "rjac", T.rjac()); put(o, "ljac", T.ljac()); put(o, "rjacinv", T.rjacinv()); put(o, "ljacinv", T.ljacinv());
  put(o, "smallAdj", T.smallAdj());
  puts(o, "inner", (double)T.inner(U)); puts(o, "weightedNorm", (double)T.weightedNorm()); puts(o, "squaredWeightedNorm", (double)T.squaredWeightedNorm());
  put(o, "t+u", (T + U).coeffs()); put(o, "t-u", (T - U).coeffs()); put(o, "-t", (-T).coeffs()); put(o, "t*2", (T * Scalar(2)).coeffs()); put(o, "t/2", (T / Scalar(2)).coeffs());
  put(o, "t+X", (T + X).coeffs()); put(o, "t.rplus(X)", T.rplus(GroupT(X)).coeffs());
  put(o, "t.plus(u)", T.plus(U, a, b).coeffs()); put(o, "t.minus(u)", T.minus(U, a, b).coeffs());
  puts(o, "t.isApprox(u)", T.isApprox(U, Scalar(1e-3)) ? 1 : 0); puts(o, "t==t", (T == T) ? 1 : 0);
  put(o, "t.cast", T.template cast<double>().coeffs());
  return o;
}

static double compare(const std::vector<Item>& a, const std::vector<Item>& b, std::string& worst_name, long& bitident, long& total) {
  double w = 0;
  if (a.size() != b.size()) { worst_name = "item count"; return INFINITY; }
  for (size_t i = 0; i < a.size(); ++i) {
    if (a[i].v.size() != b[i].v.size()) { worst_name = a[i].name + " (size)"; return INFINITY; }
    double m = 0;
    for (double x : a[i].v) m = std::max(m, std::fabs(x));
    for (size_t j = 0; j < a[i].v.size(); ++j) {
      const double x = a[i].v[j], y = b[i].v[j];
      ++total;
      if (x == y || (x != x && y != y)) { ++bitident; continue; }
      double d = std::fabs(x - y) / std::max(m, 1e-300);
      if (!(d == d)) d = INFINITY;
      if (d > w) { w = d; worst_name = a[i].name; }
    }
  }
  return w;
}

// exact-size heap blocks (ASan red zones right after the payload)
struct Heap {
  std::unique_ptr<Scalar[]> p; int off;
  Heap(int n, int offset, const Scalar* src) : p(new Scalar[n + offset]), off(offset) { for (int i = 0; i < offset; ++i) p[i] = Scalar(0); for (int i = 0; i < n; ++i) p[offset + i] = src[i]; }
  Scalar* data() { return p.get() + off; }
};
// guarded buffer for write checks
struct Guarded {
  std::vector<Scalar> b; int n, off; Scalar fill;
  Guarded(int n_, int offset, Scalar fill_, const Scalar* src) : b(n_ + 8 + offset, fill_), n(n_), off(4 + offset), fill(fill_) { for (int i = 0; i < n; ++i) b[off + i] = src[i]; }
  Scalar* data() { return b.data() + off; }
  bool guards_ok() const {
    for (size_t i = 0; i < b.size(); ++i) {
      if ((int)i >= off && (int)i < off + n) continue;
      if (std::memcmp(&b[i], &fill, sizeof(Scalar)) != 0) return false;
    }
    return true;
  }
};

template <class G, class = void> struct has_normalize : std::false_type {};
template <class G> struct has_normalize<G, decltype(void(std::declval<G&>().normalize()))> : std::true_type {};

template <class G, class F> static void normalize_case(const G& X, int off, Scalar fill, F& check_write) {
  if constexpr (has_normalize<G>::value) {
    Guarded g(G::RepSize, off, fill, X.data()); Eigen::Map<G> m(g.data()); G w = X; m.normalize(); w.normalize(); check_write("normalize", g, w, false);
  }
}

template <class G> static void uninit_normalize_case(const Scalar* raw, int off, Scalar fill, Chk& k, const Spec& s) {
  if constexpr (has_normalize<G>::value) {
    Guarded g(G::RepSize, off, fill, raw); Eigen::Map<G> m(g.data()); m.normalize();
    k.require("uninit:normalize.guards", g.guards_ok(), "normalize through a view wrote outside");
    k.bound("uninit:normalize.valid", (double)rot_norm_dev(s, toVL(m.coeffs())), (double)manif::Constants<Scalar>::eps, "normalize() through a view over off-norm data did not make it valid");
    const G w(m);   // accepted by an owning object now
    k.require("uninit:normalize.copy", std::memcmp(w.data(), g.data(), G::RepSize * sizeof(Scalar)) == 0, "owning copy of the normalised view differs");
  }
}

vf::Outcome run_case(const vf::Case& c, const vf::RunCtx& ctx) {
  const Spec s = spec();
  Chk k(ctx);
  const double* p = c.reals.data();
  try {
    const GroupT X = make_elem<GroupT>(p), Y = make_elem<GroupT>(p + R);
    const TangentT T = make_tan<GroupT>(p + 2 * R), U = make_tan<GroupT>(p + 2 * R + D);
    const typename GroupT::Vector pt = make_pt<GroupT>(p + 2 * R + 2 * D);
    Scalar fill = (Scalar)c.reals[2 * R + 2 * D + N];
    if (!(fill == fill) || fill == Scalar(0)) fill = Scalar(123.5);
    const int off = (int)c.ints[0], wsel = (int)c.ints[1];

    // ---- reads: owning vs Map vs Map<const>, as left and right operands
    const std::vector<Item> ref = read_ops(X, Y, T, U, pt);
    long bitident = 0, total = 0;
    {
      Heap hx(R, off, X.data()), hy(R, off, Y.data()), ht(D, off, T.data()), hu(D, off, U.data());
      std::string wn;
      {
        MapG mx(hx.data()), my(hy.data()); MapT mt(ht.data()), mu(hu.data());
        k.bound("Map==owning", compare(ref, read_ops(mx, my, mt, mu, pt), wn, bitident, total), 16 * kU, "Map operands give a different result: " + wn);
        k.bound("Map(left)==owning", compare(ref, read_ops(mx, Y, mt, U, pt), wn, bitident, total), 16 * kU, "Map left operand gives a different result: " + wn);
        k.bound("Map(right)==owning", compare(ref, read_ops(X, my, T, mu, pt), wn, bitident, total), 16 * kU, "Map right operand gives a different result: " + wn);
      }
      {
        const MapCG mx(hx.data()), my(hy.data()); const MapCT mt(ht.data()), mu(hu.data());
        k.bound("Map<const>==owning", compare(ref, read_ops(mx, my, mt, mu, pt), wn, bitident, total), 16 * kU, "Map<const> operands give a different result: " + wn);
        k.bound("Map<const>(right)==owning", compare(ref, read_ops(X, my, T, mu, pt), wn, bitident, total), 16 * kU, "Map<const> right operand gives a different result: " + wn);
      }
      // reads left the buffers untouched
      k.require("reads.pure", std::memcmp(hx.data(), X.data(), R * sizeof(Scalar)) == 0 && std::memcmp(ht.data(), T.data(), D * sizeof(Scalar)) == 0, "a read-only operation modified the viewed buffer");
    }
    // ---- writes through a mutable view change exactly the payload
    {
      auto check_write = [&](const std::string& name, Guarded& g, const GroupT& want, bool exact) {
        k.require("write.guards:" + name, g.guards_ok(), name + " through a view wrote outside the RepSize scalars of the buffer");
        MapCG r(g.data());
        if (exact) k.require("write.value:" + name, std::memcmp(g.data(), want.data(), R * sizeof(Scalar)) == 0, name + " through a view stored different coefficients than on an owning object");
        else { double w = 0; for (int i = 0; i < R; ++i) { double a = (double)r.coeffs()(i), b = (double)want.coeffs()(i); if (a != b) w = std::max(w, std::fabs(a - b) / std::max({std::fabs(a), std::fabs(b), 1e-300})); }
               k.bound("write.value:" + name, w, 16 * kU, name + " through a view differs from the owning object"); }
      };
      { Guarded g(R, off, fill, X.data()); MapG m(g.data()); m = Y; check_write("=owning", g, Y, true); }
      { Guarded g(R, off, fill, X.data()), g2(R, off, fill, Y.data()); MapG m(g.data()), m2(g2.data()); m = m2; check_write("=Map", g, Y, true); k.require("write.guards:=Map(src)", g2.guards_ok(), "source view modified"); }
      { Guarded g(R, off, fill, X.data()), g2(R, off, fill, Y.data()); MapG m(g.data()); MapCG m2(g2.data()); m = m2; check_write("=Map<const>", g, Y, true); }
      { Guarded g(R, off, fill, X.data()); MapG m(g.data()); m = Y.coeffs(); check_write("=Eigen", g, Y, true); }
      { Guarded g(R, off, fill, X.data()); MapG m(g.data()); GroupT tmp = Y; m = std::move(tmp); check_write("=move", g, Y, true); }
      // move-assignment from another view copies coefficients; it must not re-seat the view
      { Guarded g(R, off, fill, X.data()), g2(R, off, fill, Y.data()); MapG m(g.data()), m2(g2.data()); m = std::move(m2); check_write("=move(Map)", g, Y, true);
        k.require("write.guards:=move(Map)(src)", g2.guards_ok() && std::memcmp(g2.data(), Y.data(), R * sizeof(Scalar)) == 0, "source view modified by move assignment");
        m.setIdentity();   // a later write through the destination view lands in the destination buffer
        k.require("=move(Map): view not re-seated", std::memcmp(g.data(), GroupT::Identity().data(), R * sizeof(Scalar)) == 0 && std::memcmp(g2.data(), Y.data(), R * sizeof(Scalar)) == 0,
                  "after m = std::move(other_view) a write through m went to the other buffer"); }
      { Guarded g(R, off, fill, X.data()), g2(R, off, fill, Y.data()); MapG m(g.data()); m = MapG(g2.data()); check_write("=temporary Map", g, Y, true); }
      { Guarded g(R, off, fill, X.data()); MapG m(g.data()); m.setIdentity(); check_write("setIdentity", g, GroupT::Identity(), true); }
      { Guarded g(R, off, fill, X.data()); MapG m(g.data()); m.setRandom(); k.require("write.guards:setRandom", g.guards_ok(), "setRandom wrote outside");
        k.bound("setRandom.valid", (double)rot_norm_dev(s, toVL(m.coeffs())), (double)manif::Constants<Scalar>::eps, "setRandom through a view produced an invalid element"); }
      { Guarded g(R, off, fill, X.data()); MapG m(g.data()); m += T; GroupT w = X; w += T; check_write("+=", g, w, false); }
      { Guarded g(R, off, fill, X.data()); MapG m(g.data()); m *= Y; GroupT w = X; w *= Y; check_write("*=", g, w, false); }
      { Guarded g(R, off, fill, X.data()); MapG m(g.data()); m.coeffs()(wsel % R) = X.coeffs()(wsel % R); m[wsel % R] = X[wsel % R]; check_write("coeff access", g, X, true); }
      normalize_case<GroupT>(X, off, fill, check_write);
      // owning object assigned from views: exact copy
      { Heap hx(R, off, X.data()); MapCG mc(hx.data()); GroupT w(mc); GroupT w2; w2 = mc; MapG mm(hx.data()); GroupT w3(mm);
        k.require("copy.from_view", std::memcmp(w.data(), X.data(), R * sizeof(Scalar)) == 0 && std::memcmp(w2.data(), X.data(), R * sizeof(Scalar)) == 0 && std::memcmp(w3.data(), X.data(), R * sizeof(Scalar)) == 0,
                  "constructing / assigning an owning object from a view does not preserve coefficients exactly"); }
      // owning object assigned from a (moved / temporary) mutable view: exact copy, and the viewed buffer is only read
      { Guarded g(R, off, fill, X.data()); MapG mm(g.data()); GroupT w = Y; w = std::move(mm); GroupT w2 = Y; w2 = MapG(g.data());
        k.require("owning=move(Map)", std::memcmp(w.data(), X.data(), R * sizeof(Scalar)) == 0 && std::memcmp(w2.data(), X.data(), R * sizeof(Scalar)) == 0, "owning = std::move(view) / owning = temporary view does not preserve coefficients exactly");
        k.require("owning=move(Map): source untouched", g.guards_ok() && std::memcmp(g.data(), X.data(), R * sizeof(Scalar)) == 0, "owning = std::move(view) modified the viewed buffer"); }
      { Guarded g(D, off, fill, T.data()); MapT mm(g.data()); TangentT w = U; w = std::move(mm); TangentT w2 = U; w2 = MapT(g.data()); TangentT w3 = U; { MapT m3(g.data()); w3 = m3; }
        k.require("owning tangent=move(Map)", std::memcmp(w.data(), T.data(), D * sizeof(Scalar)) == 0 && std::memcmp(w2.data(), T.data(), D * sizeof(Scalar)) == 0 && std::memcmp(w3.data(), T.data(), D * sizeof(Scalar)) == 0,
                  "owning tangent = std::move(view) / temporary view / view does not preserve coefficients exactly");
        k.require("owning tangent=move(Map): source untouched", g.guards_ok() && std::memcmp(g.data(), T.data(), D * sizeof(Scalar)) == 0, "owning tangent = std::move(view) modified the viewed buffer"); }
      // tangent views
      auto check_twrite = [&](const std::string& name, Guarded& g, const TangentT& want) {
        k.require("twrite.guards:" + name, g.guards_ok(), name + " through a tangent view wrote outside the DoF scalars");
        k.require("twrite.value:" + name, std::memcmp(g.data(), want.data(), D * sizeof(Scalar)) == 0, name + " through a tangent view stored different coefficients");
      };
      { Guarded g(D, off, fill, T.data()); MapT m(g.data()); m = U; check_twrite("=owning", g, U); }
      { Guarded g(D, off, fill, T.data()), g2(D, off, fill, U.data()); MapT m(g.data()); MapCT m2(g2.data()); m = m2; check_twrite("=Map<const>", g, U); }
      { Guarded g(D, off, fill, T.data()); MapT m(g.data()); m = U.coeffs(); check_twrite("=Eigen", g, U); }
      { Guarded g(D, off, fill, T.data()), g2(D, off, fill, U.data()); MapT m(g.data()), m2(g2.data()); m = std::move(m2); check_twrite("=move(Map)", g, U);
        m.setZero(); k.require("t=move(Map): view not re-seated", std::memcmp(g2.data(), U.data(), D * sizeof(Scalar)) == 0, "after m = std::move(other_view) a write through m went to the other buffer"); }
      // assignment from an Eigen expression that reads the viewed tangent itself (same result as on an owning tangent)
      { const Jac A = X.adj(); TangentT w = T; w = A * w.coeffs();
        Guarded g(D, off, fill, T.data()); MapT m(g.data()); m = A * m.coeffs(); check_twrite("=A*self", g, w);
        TangentT w2 = T; w2 += A * w2.coeffs(); Guarded g3(D, off, fill, T.data()); MapT m3(g3.data()); m3 += A * m3.coeffs(); check_twrite("+=A*self", g3, w2); }
      { Guarded g(D, off, fill, T.data()); MapT m(g.data()); m.setZero(); check_twrite("setZero", g, TangentT::Zero()); }
      { Guarded g(D, off, fill, T.data()); MapT m(g.data()); m += U; TangentT w = T; w += U; check_twrite("+=", g, w); }
      { Guarded g(D, off, fill, T.data()); MapT m(g.data()); m -= U; TangentT w = T; w -= U; check_twrite("-=", g, w); }
      { Guarded g(D, off, fill, T.data()); MapT m(g.data()); m *= Scalar(3); TangentT w = T; w *= Scalar(3); check_twrite("*=", g, w); }
      { Guarded g(D, off, fill, T.data()); MapT m(g.data()); m /= Scalar(3); TangentT w = T; w /= Scalar(3); check_twrite("/=", g, w); }
      { Guarded g(D, off, fill, T.data()); MapT m(g.data()); m.setRandom(); k.require("twrite.guards:setRandom", g.guards_ok(), "tangent setRandom wrote outside"); }
      { Guarded g(D, off, fill, T.data()); MapT m(g.data()); m.setVee(U.hat()); check_twrite("setVee", g, U); }
      { Guarded g(D, off, fill, T.data()); MapT m(g.data()); m[wsel % D] = T[wsel % D]; m.coeffs()(wsel % D) = T.coeffs()(wsel % D); check_twrite("coeff access", g, T); }
    }
    // ---- a view is a view: data() is the user's pointer and reads follow later changes of the buffer (a snapshot taken at
    //      construction would pass every comparison above)
    {
      Heap hx(R, off, X.data()), ht(D, off, T.data());
      MapG mx(hx.data()); const MapCG cx(hx.data()); MapT mt(ht.data()); const MapCT ct(ht.data());
      k.require("view.data()", (const void*)mx.data() == (const void*)hx.data() && (const void*)cx.data() == (const void*)hx.data() &&
                (const void*)mt.data() == (const void*)ht.data() && (const void*)ct.data() == (const void*)ht.data() &&
                (const void*)cx.coeffs().data() == (const void*)hx.data() && (const void*)ct.coeffs().data() == (const void*)ht.data(),
                "data() / coeffs().data() of a view is not the address of the viewed buffer");
      std::memcpy(hx.data(), Y.data(), R * sizeof(Scalar)); std::memcpy(ht.data(), U.data(), D * sizeof(Scalar));   // the user updates the buffer
      auto same = [](const Scalar* a, const Scalar* b, int n) { return std::memcmp(a, b, n * sizeof(Scalar)) == 0; };
      const GroupT gx(mx), gc(cx); const TangentT tt(mt), tc(ct);
      k.require("view.live:coeffs", same(gx.data(), Y.data(), R) && same(gc.data(), Y.data(), R) && same(tt.data(), U.data(), D) && same(tc.data(), U.data(), D),
                "a view created before the buffer was modified still reads the old coefficients (the view is a copy)");
      std::string wn; long b2 = 0, t2 = 0;
      k.bound("view.live:ops", compare(read_ops(Y, X, U, T, pt), read_ops(cx, X, ct, T, pt), wn, b2, t2), 16 * kU, "operations on a const view do not follow the buffer: " + wn);
      k.bound("view.live:ops(mutable)", compare(read_ops(Y, X, U, T, pt), read_ops(mx, X, mt, T, pt), wn, b2, t2), 16 * kU, "operations on a mutable view do not follow the buffer: " + wn);
    }
    // ---- a mutable view can be placed over a buffer that does not hold a valid element yet (that is how a buffer is
    //      initialised through a view, and the only way normalize() through a view has anything to do)
    {
      const int kind = wsel % 3;   // zeros | the fill pattern | a valid element scaled off-norm
      std::vector<Scalar> raw(R);
      const Scalar sc = Scalar(0.5) + Scalar(0.15) * Scalar(wsel);   // 0.5 .. 1.85
      for (int i = 0; i < R; ++i) raw[i] = kind == 0 ? Scalar(0) : kind == 1 ? fill : X.coeffs()(i) * sc;
      try {
        { Guarded g(R, off, fill, raw.data()); MapG m(g.data()); m.setIdentity();
          k.require("uninit:setIdentity", g.guards_ok() && std::memcmp(g.data(), GroupT::Identity().data(), R * sizeof(Scalar)) == 0, "setIdentity through a view over an uninitialised buffer"); }
        { Guarded g(R, off, fill, raw.data()); MapG m(g.data()); m = Y;
          k.require("uninit:=owning", g.guards_ok() && std::memcmp(g.data(), Y.data(), R * sizeof(Scalar)) == 0, "assignment through a view over an uninitialised buffer"); }
        { Guarded g(R, off, fill, raw.data()); MapG m(g.data()); m.setRandom();
          k.require("uninit:setRandom.guards", g.guards_ok(), "setRandom through a view over an uninitialised buffer wrote outside");
          k.bound("uninit:setRandom.valid", (double)rot_norm_dev(s, toVL(m.coeffs())), (double)manif::Constants<Scalar>::eps, "setRandom through a view over an uninitialised buffer produced an invalid element"); }
        if (kind == 2) uninit_normalize_case<GroupT>(raw.data(), off, fill, k, s);
        { Guarded g(D, off, fill, raw.data()); MapT m(g.data()); m.setZero();
          k.require("uninit:t.setZero", g.guards_ok() && std::memcmp(g.data(), TangentT::Zero().data(), D * sizeof(Scalar)) == 0, "setZero through a tangent view over an uninitialised buffer"); }
      } catch (const std::exception& e) {
        k.require("uninit:nothrow", false, std::string("placing a mutable view over a buffer that is not (yet) a valid element, or initialising it through the view, threw: ") + e.what());
      }
      k.label(kind == 0 ? "uninit buffer: zeros" : kind == 1 ? "uninit buffer: fill pattern" : "uninit buffer: off-norm element");
    }
    k.o.nontrivial = off == 1 && !T.coeffs().isZero(0) && !(X.coeffs().array() == GroupT::Identity().coeffs().array()).all();
    k.label(off ? "mis-aligned buffer" : "aligned buffer");
    if (total) k.label(bitident == total ? "all view results bit-identical to owning" : "some view result not bit-identical (within 16u)");
  } catch (const std::exception& e) {
    k.require("nothrow", false, std::string("exception: ") + e.what());
  }
  return k.o;
}

}  // namespace vfp
