// C14_prog.cpp -- generated thread programs over the const API of manif, run under
// ThreadSanitizer, compared with a single-threaded evaluation of the same programs.
//
//   C14_prog <seed> <threads 2..16> <length>
//
// * everything (object pool, thread programs, yield/rendezvous points) is derived from <seed>
//   through the LCG below: no clock, no rand() in the generator;
// * the shared pool is built from raw coefficient vectors only (G(DataType) runs nothing
//   but the normalisation assertion), so no static helper of manif is touched before the
//   threads are released;
// * the threads share: the pool (read only), the programs (read only), the rendezvous
//   counters (relaxed atomics: ThreadSanitizer derives NO happens-before edge from relaxed
//   operations, so the harness does not hide a race of the library behind its own
//   synchronisation).  Every thread writes exclusively to its own ThreadOut;
// * steady_clock is used for the contention statistic only, never as an oracle.
//
// exit status: 0 ok, 3 result mismatch, 2 usage;  ThreadSanitizer exits by TSAN_OPTIONS.
#include <manif/manif.h>
#include <manif/Bundle.h>

#include <atomic>
#include <chrono>
#include <cstdint>
#include <cstdio>
#include <cstdlib>
#include <cstring>
#include <string>
#include <thread>
#include <vector>

namespace c14 {

// ------------------------------------------------------------------ deterministic generator
struct Lcg {
  uint64_t s;
  explicit Lcg(uint64_t seed) : s(seed * 0x9E3779B97F4A7C15ull + 0x632BE59BD9B4E019ull) { next(); next(); }
  uint64_t next() {  // 64-bit LCG (Knuth MMIX constants) with an xorshift output mix
    s = s * 6364136223846793005ull + 1442695040888963407ull;
    uint64_t x = s;
    x ^= x >> 33; x *= 0xff51afd7ed558ccdull; x ^= x >> 29;
    return x;
  }
  unsigned below(unsigned n) { return (unsigned)((next() >> 11) % n); }
  double unit() { return (double)(next() >> 11) * (1.0 / 9007199254740992.0); }
  double uni(double a, double b) { return a + (b - a) * unit(); }
  bool chance(double p) { return unit() < p; }
};

// ------------------------------------------------------------------ hashing of results
inline uint64_t fnv(const void* p, size_t n, uint64_t h = 1469598103934665603ull) {
  const unsigned char* c = static_cast<const unsigned char*>(p);
  for (size_t i = 0; i < n; ++i) { h ^= c[i]; h *= 1099511628211ull; }
  return h;
}
template <class D> uint64_t hm(const Eigen::MatrixBase<D>& m) {
  typename D::PlainObject e = m;  // evaluate into dense storage owned by this thread
  return fnv(e.data(), sizeof(typename D::Scalar) * (size_t)e.size());
}
template <class S> uint64_t hs(S v) { return fnv(&v, sizeof(S)); }
inline uint64_t hb(bool b) { unsigned char c = b ? 1 : 0; return fnv(&c, 1); }
inline uint64_t mix(uint64_t a, uint64_t b) { return (a ^ (b + 0x9E3779B97F4A7C15ull + (a << 6) + (a >> 2))) * 1099511628211ull; }

// ------------------------------------------------------------------ raw coefficient layouts
// 'r' real, 'c' unit complex (re, im), 'q' unit quaternion (x, y, z, w)
template <class G> struct Layout;
template <class S> struct Layout<manif::SO2<S>> { static const char* get() { return "c"; } };
template <class S> struct Layout<manif::SE2<S>> { static const char* get() { return "rrc"; } };
template <class S> struct Layout<manif::SO3<S>> { static const char* get() { return "q"; } };
template <class S> struct Layout<manif::SE3<S>> { static const char* get() { return "rrrq"; } };
template <class S> struct Layout<manif::SE_2_3<S>> { static const char* get() { return "rrrqrrr"; } };
template <class S> struct Layout<manif::SGal3<S>> { static const char* get() { return "rrrqrrrr"; } };
template <class S> struct Layout<manif::Rn<S, 3>> { static const char* get() { return "rrr"; } };
template <class S> struct Layout<manif::Bundle<S, manif::SE3, manif::SO2, manif::R3>> { static const char* get() { return "rrrqcrrr"; } };

// groups whose adj/rjac/ljac/smallAdj are (or contain) function-local statics
template <class G> struct ConstJac { static const bool value = false; };
template <class S> struct ConstJac<manif::SO2<S>> { static const bool value = true; };
template <class S> struct ConstJac<manif::Rn<S, 3>> { static const bool value = true; };
template <class S> struct ConstJac<manif::Bundle<S, manif::SE3, manif::SO2, manif::R3>> { static const bool value = true; };

// how much of the operation table is instantiated for a group (compile time of the TSan build):
// 2 = everything, 1 = no Jacobian-output variants / CUBIC / CNSMOOTH / operator aliases, 0 = short list.
// (measured: levels 1 and 2 cost the same to compile, so every double group gets the full table)
template <class G> struct Level { static const int value = 2; };
template <> struct Level<manif::SO2f> { static const int value = 0; };
template <> struct Level<manif::SE3f> { static const int value = 0; };
template <> struct Level<manif::R3f> { static const int value = 0; };

static const int NP = 4;  // pool entries per kind and group

template <class G> struct Pool {
  using T = typename G::Tangent;
  using V = typename G::Vector;
  using S = typename G::Scalar;
  G X[NP];
  T t[NP];
  V v[NP];
  bool built = false;

  // kind 0: generic, kind 1: tiny rotation / tiny tangent (small-angle branches)
  static typename G::DataType raw_elem(Lcg& r, int kind) {
    typename G::DataType d;
    const char* L = Layout<G>::get();
    int k = 0;
    for (const char* p = L; *p; ++p) {
      if (*p == 'r') { d(k++) = (S)r.uni(-2.0, 2.0); }
      else if (*p == 'c') {
        double a = kind == 1 ? r.uni(-1e-9, 1e-9) : r.uni(-3.14159, 3.14159);
        S re = (S)std::cos(a), im = (S)std::sin(a);
        S n = std::sqrt(re * re + im * im);
        d(k++) = re / n; d(k++) = im / n;
      } else {
        double q[4];
        double n2;
        do {
          n2 = 0;
          for (int i = 0; i < 4; ++i) { q[i] = r.uni(-1.0, 1.0); if (kind == 1 && i < 3) q[i] *= 1e-9; n2 += q[i] * q[i]; }
          if (kind == 1) { n2 += 1.0 - q[3] * q[3]; q[3] = 1.0; }
        } while (n2 < 0.05 || n2 > 1.0 + (kind == 1 ? 1.0 : 0.0));
        S f[4]; S n = 0;
        for (int i = 0; i < 4; ++i) { f[i] = (S)(q[i] / std::sqrt(n2)); n += f[i] * f[i]; }
        n = std::sqrt(n);
        for (int i = 0; i < 4; ++i) d(k++) = f[i] / n;
      }
    }
    return d;
  }

  void build(Lcg& r) {
    for (int i = 0; i < NP; ++i) {
      X[i] = G(raw_elem(r, i == NP - 1 ? 1 : 0));          // G(const Eigen::MatrixBase&): copy + normalisation assertion
      typename T::DataType td;
      double sc = i == NP - 1 ? 1e-9 : (i == 0 ? 1.0 : 0.3);
      for (int k = 0; k < T::DoF; ++k) td(k) = (S)(sc * r.uni(-1.0, 1.0));
      t[i] = T(td);
      for (int k = 0; k < G::Dim; ++k) v[i](k) = (S)r.uni(-3.0, 3.0);
    }
    built = true;
  }
};

template <class G> Pool<G>& pool() { static Pool<G> p; return p; }  // harness static, initialised by main before the threads exist

// ------------------------------------------------------------------ operation codes
enum Code {
  // static helpers (function-local statics of the library behind them)
  H_IDENTITY, H_SETIDENTITY, H_ZERO, H_INNERW, H_GEN,
  // const Jacobians / adjoints (statics for SO2, Rn and inside Bundle)
  O_ADJ, O_RJAC, O_LJAC, O_SMALLADJ,
  // everything else
  O_RJACINV, O_LJACINV, O_EXP, O_EXP_J, O_LOG, O_LOG_J, O_INVERSE, O_INVERSE_J, O_COMPOSE, O_COMPOSE_J,
  O_BETWEEN, O_RPLUS, O_RPLUS_J, O_LPLUS, O_RMINUS, O_LMINUS, O_ACT, O_ACT_J, O_HAT, O_VEE, O_INNER, O_BRACKET,
  O_WNORM, O_ISAPPROX, O_TISAPPROX, O_INTERP, O_INTERP_CUBIC, O_INTERP_SMOOTH, O_TRANSFORM, O_OPMUL, O_OPPLUS, O_OPMINUS,
  O_TPLUS, O_MEMBER_GEN, O_MEMBER_INNERW, O_NEG_EXP, O_EQ,
  N_CODES
};
static const char* const CODE_NAME[N_CODES] = {
  "Identity", "setIdentity", "Zero", "InnerWeights", "Generator",
  "adj", "rjac", "ljac", "smallAdj",
  "rjacinv", "ljacinv", "exp", "exp(J)", "log", "log(J)", "inverse", "inverse(J)", "compose", "compose(J,J)",
  "between", "rplus", "rplus(J,J)", "lplus", "rminus", "lminus", "act", "act(J,J)", "hat", "Vee(hat)", "inner", "bracket",
  "weightedNorm", "isApprox", "t.isApprox", "interpolate", "interpolate(CUBIC)", "interpolate(CNSMOOTH)", "transform", "X*Y", "X+t", "X-Y",
  "t+u", "t.generator", "t.innerWeights", "(-t).exp", "X==Y",
};

// minimal Level<G> at which an operation is instantiated for G
inline int min_level(int code) {
  switch (code) {
    case H_IDENTITY: case H_SETIDENTITY: case H_ZERO: case H_INNERW: case H_GEN:
    case O_ADJ: case O_RJAC: case O_LJAC: case O_SMALLADJ:
    case O_EXP: case O_LOG: case O_COMPOSE: case O_ISAPPROX: case O_INTERP: case O_ACT: case O_RPLUS: case O_HAT: case O_INNER:
      return 0;
    case O_EXP_J: case O_LOG_J: case O_INVERSE_J: case O_COMPOSE_J: case O_RPLUS_J: case O_ACT_J:
    case O_INTERP_CUBIC: case O_INTERP_SMOOTH: case O_OPMUL: case O_OPPLUS: case O_OPMINUS: case O_NEG_EXP:
      return 2;
    default:
      return 1;
  }
}

template <class G> uint64_t exec(int code, int a, int b, int c) {
  using T = typename G::Tangent;
  using J = typename G::Jacobian;
  using S = typename G::Scalar;
  const Pool<G>& P = pool<G>();
  const G& X = P.X[a & (NP - 1)];
  const G& Y = P.X[b & (NP - 1)];
  const T& t = P.t[a & (NP - 1)];
  const T& u = P.t[b & (NP - 1)];
  const typename G::Vector& v = P.v[c & (NP - 1)];
  switch (code) {
    case H_IDENTITY: return hm(G::Identity().coeffs());
    case H_SETIDENTITY: { G g; g.setIdentity(); return hm(g.coeffs()); }  // local object, shared static inside
    case H_ZERO: return hm(T::Zero().coeffs());
    case H_INNERW: return hm(T::InnerWeights());
    case H_GEN: return hm(T::Generator(c));
    case O_ADJ: return hm(X.adj());
    case O_RJAC: return hm(t.rjac());
    case O_LJAC: return hm(t.ljac());
    case O_SMALLADJ: return hm(t.smallAdj());
    case O_EXP: return hm(t.exp().coeffs());
    case O_LOG: return hm(X.log().coeffs());
    case O_COMPOSE: return hm(X.compose(Y).coeffs());
    case O_RPLUS: return hm(X.rplus(u).coeffs());
    case O_ACT: return hm(X.act(v));
    case O_HAT: return hm(t.hat());
    case O_INNER: return hs<S>(t.inner(u));
    case O_ISAPPROX: return mix(hb(X.isApprox(Y)), hb(X.isApprox(X)));          // uses Tangent::Zero()
    case O_INTERP: return hm(manif::interpolate(X, Y, S(0.3)).coeffs());      // default arguments use Tangent::Zero()
    default: break;
  }
  if constexpr (Level<G>::value >= 1) {
    switch (code) {
      case O_RJACINV: return hm(t.rjacinv());
      case O_LJACINV: return hm(t.ljacinv());
      case O_INVERSE: return hm(X.inverse().coeffs());
      case O_BETWEEN: return hm(X.between(Y).coeffs());
      case O_LPLUS: return hm(X.lplus(u).coeffs());
      case O_RMINUS: return hm(X.rminus(Y).coeffs());
      case O_LMINUS: return hm(X.lminus(Y).coeffs());
      case O_VEE: return hm(T::Vee(t.hat()).coeffs());
      case O_BRACKET: return hm(t.bracket(u).coeffs());
      case O_WNORM: return mix(hs<S>(t.weightedNorm()), hs<S>(t.squaredWeightedNorm()));
      case O_TISAPPROX: return mix(hb(t.isApprox(u)), hb(t.isApprox(t)));
      case O_TRANSFORM: return hm(X.transform());
      case O_TPLUS: return hm((t + u).coeffs());
      case O_MEMBER_GEN: return hm(t.generator(c));
      case O_MEMBER_INNERW: return hm(t.innerWeights());
      case O_EQ: return mix(hb(X == Y), hb(t == u));
      default: break;
    }
  }
  if constexpr (Level<G>::value >= 2) {
    switch (code) {
      case O_EXP_J: { J j; uint64_t h = hm(t.exp(j).coeffs()); return mix(h, hm(j)); }
      case O_LOG_J: { J j; uint64_t h = hm(X.log(j).coeffs()); return mix(h, hm(j)); }
      case O_INVERSE_J: { J j; uint64_t h = hm(X.inverse(j).coeffs()); return mix(h, hm(j)); }
      case O_COMPOSE_J: { J j1, j2; uint64_t h = hm(X.compose(Y, j1, j2).coeffs()); return mix(mix(h, hm(j1)), hm(j2)); }
      case O_RPLUS_J: { J j1, j2; uint64_t h = hm(X.rplus(u, j1, j2).coeffs()); return mix(mix(h, hm(j1)), hm(j2)); }
      case O_ACT_J: {
        Eigen::Matrix<S, G::Dim, G::DoF> j1; Eigen::Matrix<S, G::Dim, G::Dim> j2;
        uint64_t h = hm(X.act(v, j1, j2)); return mix(mix(h, hm(j1)), hm(j2));
      }
      case O_INTERP_CUBIC: return hm(manif::interpolate(X, Y, S(0.3), manif::INTERP_METHOD::CUBIC).coeffs());
      case O_INTERP_SMOOTH: return hm(manif::interpolate(X, Y, S(0.3), manif::INTERP_METHOD::CNSMOOTH).coeffs());
      case O_OPMUL: return hm((X * Y).coeffs());
      case O_OPPLUS: return hm((X + u).coeffs());
      case O_OPMINUS: return hm((X - Y).coeffs());
      case O_NEG_EXP: return hm((-t).exp().coeffs());
      default: break;
    }
  }
  return 0;
}

// ------------------------------------------------------------------ operation table
struct Entry {
  uint64_t (*fn)(int, int, int, int);
  int code;
  int fixed_c;   // >= 0: generator index, -1: generated
  int helper;    // >= 0: index into the helper table (first-call intervals are recorded)
  int dof;
  std::string name;
};
static std::vector<Entry> TABLE;
static std::vector<int> HELPERS;     // TABLE indices of the helper entries
static std::vector<int> REGULAR;     // TABLE indices of every other entry
static std::vector<void (*)(Lcg&)> BUILDERS;

template <class G> void build_pool(Lcg& r) { pool<G>().build(r); }

template <class G> void reg(const char* gname) {
  BUILDERS.push_back(&build_pool<G>);
  for (int code = 0; code < N_CODES; ++code) {
    if (min_level(code) > Level<G>::value) continue;
    int reps = code == H_GEN ? (int)G::DoF : 1;
    for (int i = 0; i < reps; ++i) {
      Entry e;
      e.fn = &exec<G>;
      e.code = code;
      e.fixed_c = code == H_GEN ? i : -1;
      e.dof = (int)G::DoF;
      bool is_helper = code <= H_GEN || (code <= O_SMALLADJ && ConstJac<G>::value);
      e.helper = is_helper ? (int)HELPERS.size() : -1;
      e.name = std::string(gname) + "::" + CODE_NAME[code] + (code == H_GEN ? "(" + std::to_string(i) + ")" : "");
      (is_helper ? HELPERS : REGULAR).push_back((int)TABLE.size());
      TABLE.push_back(e);
    }
  }
}

static void build_table() {
  using namespace manif;
  reg<SO2d>("SO2d");
  reg<SE2d>("SE2d");
  reg<SO3d>("SO3d");
  reg<SE3d>("SE3d");
  reg<SE_2_3d>("SE_2_3d");
  reg<SGal3d>("SGal3d");
  reg<R3d>("R3d");
  reg<Bundle<double, SE3, SO2, R3>>("Bundle<double,SE3,SO2,R3>");
  reg<SO2f>("SO2f");
  reg<SE3f>("SE3f");
  reg<R3f>("R3f");
}

// ------------------------------------------------------------------ thread programs
enum StepKind : uint8_t { S_OP = 0, S_YIELD = 1, S_MEET = 2 };
struct Step { uint8_t kind; uint8_t a, b, c; uint16_t op; };

struct ThreadOut {          // written by exactly one thread; read by main after join()
  std::vector<uint64_t> res;
  std::vector<int64_t> t0, t1;   // first explicit call to helper h: [t0,t1] in ns, -1 = never
  char pad[128];
};

static const int MAX_MEET = 96;
struct alignas(128) Counter { std::atomic<int> n; char pad[128 - sizeof(std::atomic<int>)]; };  // one cache line pair each
static Counter MEET_[MAX_MEET + 1];   // relaxed rendezvous counters
static Counter GO_;
#define MEET(k) (MEET_[k].n)
#define GO (GO_.n)

static inline int64_t now_ns() {
  return std::chrono::duration_cast<std::chrono::nanoseconds>(std::chrono::steady_clock::now().time_since_epoch()).count();
}

static inline void meet(int k, int T) {
  MEET(k).fetch_add(1, std::memory_order_relaxed);
  unsigned spins = 0;
  while (MEET(k).load(std::memory_order_relaxed) < T) {
    if (++spins > 2000) { std::this_thread::yield(); spins = 0; }  // no sleeping; yield only under oversubscription
  }
}

static uint64_t run_step(const Step& s) {
  const Entry& e = TABLE[s.op];
  int c = e.fixed_c >= 0 ? e.fixed_c : (e.code == O_MEMBER_GEN ? (int)(s.c % e.dof) : (int)s.c);
  try {
    return e.fn(e.code, s.a, s.b, c);
  } catch (const std::exception& ex) {
    return fnv(ex.what(), std::strlen(ex.what()), 0xE0E0E0E0E0E0E0E0ull);
  } catch (...) {
    return 0xDEADDEADDEADDEADull;
  }
}

static void worker(const std::vector<Step>* prog, ThreadOut* out, int T) {
  int nmeet = 0;
  GO.fetch_add(1, std::memory_order_relaxed);
  while (GO.load(std::memory_order_relaxed) < T + 1) { }   // spin barrier: all workers + the release by main
  for (const Step& s : *prog) {
    if (s.kind == S_YIELD) { std::this_thread::yield(); continue; }
    if (s.kind == S_MEET) { meet(nmeet++, T); continue; }
    const int h = TABLE[s.op].helper;
    if (h >= 0 && out->t0[h] < 0) {
      int64_t b = now_ns();
      uint64_t r = run_step(s);
      int64_t e = now_ns();
      out->t0[h] = b; out->t1[h] = e;
      out->res.push_back(r);
    } else {
      out->res.push_back(run_step(s));
    }
  }
}

static Step gen_op(Lcg& r, int op) {
  Step s; s.kind = S_OP; s.op = (uint16_t)op;
  s.a = (uint8_t)r.below(NP); s.b = (uint8_t)r.below(NP); s.c = (uint8_t)r.below(NP);
  return s;
}

static void shuffle(Lcg& r, std::vector<int>& v) {
  for (size_t i = v.size(); i > 1; --i) std::swap(v[i - 1], v[r.below((unsigned)i)]);
}

// mode 0: lock step   -- one shared order of the helpers, a rendezvous before every chunk
// mode 1: rotated     -- one shared order, every thread starts at its own offset
// mode 2: independent -- every thread its own order
// mode 3: mixed       -- helpers and ordinary operations (implicit first use through isApprox,
//                        interpolate, setIdentity ...) interleaved from the first step on
static int generate(Lcg& r, int T, int L, std::vector<std::vector<Step>>& progs) {
  const int mode = (int)r.below(4);
  const double pyield = (r.below(3) == 0) ? 0.0 : (r.below(2) ? 0.05 : 0.25);
  const int H = (int)HELPERS.size();
  std::vector<int> order(HELPERS);
  shuffle(r, order);
  int P = mode == 3 ? 0 : std::min(H, L / 2 + (int)r.below((unsigned)(L - L / 2 + 1)));
  const int chunks[5] = {1, 1, 2, 4, 8};
  int chunk = chunks[r.below(5)];
  while ((P + chunk - 1) / chunk > MAX_MEET - 8) chunk *= 2;
  const int extra_meets = (int)r.below(4);       // rendezvous points in the tail, same count in every thread
  progs.assign(T, std::vector<Step>());
  for (int k = 0; k < T; ++k) {
    std::vector<Step>& p = progs[k];
    std::vector<int> mine;
    if (mode == 0) mine = order;
    else if (mode == 1) { int off = (int)r.below((unsigned)H); mine = order; std::rotate(mine.begin(), mine.begin() + off, mine.end()); }
    else if (mode == 2) { mine = order; shuffle(r, mine); }
    int nops = 0;
    for (int i = 0; i < P; ++i, ++nops) {
      if (mode == 0 && i % chunk == 0) { Step m; std::memset(&m, 0, sizeof m); m.kind = S_MEET; p.push_back(m); }
      p.push_back(gen_op(r, mine[i]));
      if (mode != 0 && r.chance(pyield)) { Step y; std::memset(&y, 0, sizeof y); y.kind = S_YIELD; p.push_back(y); }
    }
    // tail: drawn from the whole table, helpers with probability 1/3
    int tail = L - nops;
    std::vector<int> meet_at;
    for (int m = 0; m < extra_meets; ++m) meet_at.push_back(tail > 0 ? (int)r.below((unsigned)tail) : 0);
    for (int i = 0; i < tail; ++i) {
      for (int m : meet_at) if (m == i) { Step s; std::memset(&s, 0, sizeof s); s.kind = S_MEET; p.push_back(s); }
      int op = r.below(3) == 0 ? HELPERS[r.below((unsigned)H)] : REGULAR[r.below((unsigned)REGULAR.size())];
      p.push_back(gen_op(r, op));
      if (r.chance(pyield)) { Step y; std::memset(&y, 0, sizeof y); y.kind = S_YIELD; p.push_back(y); }
    }
    if (tail <= 0) for (int m = 0; m < extra_meets; ++m) { Step s; std::memset(&s, 0, sizeof s); s.kind = S_MEET; p.push_back(s); }
  }
  return mode;
}

}  // namespace c14

int main(int argc, char** argv) {
  using namespace c14;
  if (argc < 4) { std::fprintf(stderr, "usage: %s seed threads(2..16) length [--dump]\n", argv[0]); return 2; }
  const uint64_t seed = std::strtoull(argv[1], nullptr, 10);
  int T = std::atoi(argv[2]);
  int L = std::atoi(argv[3]);
  const bool dump = argc > 4 && std::string(argv[4]) == "--dump";
  if (T < 2) T = 2; if (T > 16) T = 16;
  if (L < 1) L = 1; if (L > 100000) L = 100000;

  build_table();
  Lcg r(seed);
  for (auto b : BUILDERS) b(r);            // shared pool, raw coefficients only
  std::vector<std::vector<Step>> progs;
  const int mode = generate(r, T, L, progs);
  if (dump) {
    for (int k = 0; k < T; ++k) {
      std::printf("thread %d:", k);
      for (const Step& s : progs[k]) {
        if (s.kind == S_YIELD) std::printf(" yield;");
        else if (s.kind == S_MEET) std::printf(" MEET;");
        else std::printf(" %s[%d,%d,%d];", TABLE[s.op].name.c_str(), s.a, s.b, s.c);
      }
      std::printf("\n");
    }
  }

  const int H = (int)HELPERS.size();
  std::vector<ThreadOut> outs(T);
  for (int k = 0; k < T; ++k) { outs[k].res.reserve(L + 8); outs[k].t0.assign(H, -1); outs[k].t1.assign(H, -1); }
  for (int i = 0; i <= MAX_MEET; ++i) MEET(i).store(0, std::memory_order_relaxed);
  GO.store(0, std::memory_order_relaxed);

  std::vector<std::thread> th;
  for (int k = 0; k < T; ++k) th.emplace_back(worker, &progs[k], &outs[k], T);
  while (GO.load(std::memory_order_relaxed) < T) { }      // all workers are spinning at the barrier
  GO.fetch_add(1, std::memory_order_relaxed);             // release them together
  for (auto& t : th) t.join();

  // ---- differential part: the same programs, one thread
  long total = 0, mismatches = 0;
  for (int k = 0; k < T; ++k) {
    size_t i = 0;
    for (const Step& s : progs[k]) {
      if (s.kind != S_OP) continue;
      uint64_t ref = run_step(s);
      ++total;
      if (i >= outs[k].res.size() || outs[k].res[i] != ref) {
        if (++mismatches <= 20)
          std::printf("MISMATCH thread=%d op=%zu %s threaded=%016llx single=%016llx\n", k, i, TABLE[s.op].name.c_str(),
                      (unsigned long long)(i < outs[k].res.size() ? outs[k].res[i] : 0ull), (unsigned long long)ref);
      }
      ++i;
    }
  }

  // ---- contention statistic: helpers whose first-call intervals of >= 2 threads overlap
  int contended = 0, shared_first = 0;
  for (int h = 0; h < H; ++h) {
    bool ov = false; int users = 0;
    for (int a = 0; a < T; ++a) {
      if (outs[a].t0[h] < 0) continue;
      ++users;
      for (int b = a + 1; b < T && !ov; ++b) {
        if (outs[b].t0[h] < 0) continue;
        if (outs[a].t0[h] <= outs[b].t1[h] && outs[b].t0[h] <= outs[a].t1[h]) ov = true;
      }
    }
    if (ov) ++contended;
    if (users >= 2) ++shared_first;
  }
  std::printf("CONTENDED %d\n", contended);
  std::printf("OPS %ld\n", total);
  std::printf("{\"seed\": %llu, \"T\": %d, \"L\": %d, \"mode\": %d, \"helpers\": %d, \"table\": %d, \"ops\": %ld, \"contended\": %d, "
              "\"helpers_used_by_2plus_threads\": %d, \"mismatches\": %ld}\n",
              (unsigned long long)seed, T, L, mode, H, (int)TABLE.size(), total, contended, shared_first, mismatches);
  return mismatches ? 3 : 0;
}
