// C12 -- generic in the scalar: dual numbers differentiate every operation correctly;
// the ceres-style functors work over raw-pointer views of dual scalars; float agrees with double.
#include "vf_manif.h"
#include <manif/ceres/local_parametrization.h>
#include <manif/ceres/manifold.h>
#include <manif/ceres/objective.h>
#include <manif/ceres/constraint.h>

using namespace vf;
using namespace vfcfg;

VF_STD_PROPERTY("C12", "rotation of the differentiated argument != 0 (when the group has one) and the dual part of the result has >= DoF non-zero entries; distinct = distinct (operation, argument, input bits)")

namespace vfp {

static const int R = GroupT::RepSize, D = GroupT::DoF, N = GroupT::Dim;

#ifdef VF_SCALAR_DUAL
// =====================================================================================================
using GD = typename GroupT::template LieGroupTemplate<double>;   // the same group over double
using TD = typename GD::Tangent;
using JacD = typename GD::Jacobian;
static const int kNumOps = 26;

vf::Shape shape() {
  Shape sh;
  sh.n_elems = 2;
  sh.n_tangents = 2;
  sh.n_points = 1;
  sh.tp = TP_INJ;
  sh.ep = EP_ALL;
  sh.ints = {{0, kNumOps - 1}, {0, 1}};   // pair; 1 = request only the Jacobian under test
  sh.scalars = {SK_UNIT, SK_UNIT};   // weight of the objective, scale of the covariance
  return sh;
}

static GroupT lift(const GD& x) { typename GroupT::DataType d; for (int i = 0; i < R; ++i) d(i) = Scalar(x.coeffs()(i)); return GroupT(d); }
static TangentT lift(const TD& t) { typename TangentT::DataType d; for (int i = 0; i < D; ++i) d(i) = Scalar(t.coeffs()(i)); return TangentT(d); }
// X (+) d with d the vector of independent infinitesimals
static GroupT perturbed(const GD& x) {
  typename TangentT::DataType d;
  for (int i = 0; i < D; ++i) d(i) = Scalar(0.0, i);
  return lift(x).rplus(TangentT(d));
}
static TangentT perturbed(const TD& t) { typename TangentT::DataType d; for (int i = 0; i < D; ++i) d(i) = Scalar(t.coeffs()(i), i); return TangentT(d); }
// tangent-space derivative of a group-valued dual result: d/dd [ Y (-) Y0 ]
static MatL djac(const GroupT& Y, const GD& Y0) {
  const TangentT r = Y.rminus(lift(Y0));
  MatL J(D, D);
  for (int i = 0; i < D; ++i) for (int j = 0; j < D; ++j) J(i, j) = r.coeffs()(i).v(j);
  return J;
}
template <class V> static MatL dvec(const V& y, int ncols) {
  MatL J(y.size(), ncols);
  for (int i = 0; i < y.size(); ++i) for (int j = 0; j < ncols; ++j) J(i, j) = y(i).v(j);
  return J;
}
template <class A, class B> static double primal_err(const A& dual, const B& dbl, double scale) {
  double w = 0;
  for (int i = 0; i < dbl.size(); ++i) { double d = std::fabs(dual(i).a - (double)dbl(i)) / scale; if (!(d == d)) d = INFINITY; w = std::max(w, d); }
  return w;
}

struct Res { std::string name; bool needs_log = false; MatL Jan, Jad, scale; double perr = 0; bool rows_tan = true, cols_tan = true; bool ok = true; bool check_valid = false; double out_dev = 0; };

static Res evaluate(int idx, bool only, const GD& X, const GD& Y, const TD& T, const TD& U, const typename GD::Vector& pt, double w_obj, double cov_scale, double S) {
  Res r;
  JacD a, b;
  using OptD = typename GD::OptJacobianRef;
  auto A = [&](bool under_test) { return (under_test || !only) ? OptD(a) : OptD{}; };
  auto B = [&](bool under_test) { return (under_test || !only) ? OptD(b) : OptD{}; };
  const GroupT Xc = lift(X), Yc = lift(Y); const TangentT Tc = lift(T);
  auto grp = [&](const char* n, const GD& y0, const GroupT& yj, const JacD& Jan) { r.name = n; r.Jan = toML(Jan); r.Jad = djac(yj, y0); r.perr = primal_err(yj.coeffs(), y0.coeffs(), S); };
  auto vec = [&](const char* n, const TD& y0, const TangentT& yj, const JacD& Jan) { r.name = n; r.Jan = toML(Jan); r.Jad = dvec(yj.coeffs(), D); r.perr = primal_err(yj.coeffs(), y0.coeffs(), S); };
  switch (idx) {
    case 0: { GD y = X.inverse(a); grp("inverse", y, perturbed(X).inverse(), a); } break;
    case 1: { TD y = X.log(a); r.needs_log = true; vec("log", y, perturbed(X).log(), a); } break;
    case 2: { GD y = T.exp(a); grp("exp", y, perturbed(T).exp(), a); } break;
    case 3: { GD y = X.compose(Y, A(true), B(false)); grp("compose/a", y, perturbed(X).compose(Yc), a); } break;
    case 4: { GD y = X.compose(Y, A(false), B(true)); grp("compose/b", y, Xc.compose(perturbed(Y)), b); } break;
    case 5: { GD y = X.between(Y, A(true), B(false)); grp("between/a", y, perturbed(X).between(Yc), a); } break;
    case 6: { GD y = X.between(Y, A(false), B(true)); grp("between/b", y, Xc.between(perturbed(Y)), b); } break;
    case 7: { GD y = X.rplus(T, A(true), B(false)); grp("rplus/m", y, perturbed(X).rplus(Tc), a); } break;
    case 8: { GD y = X.rplus(T, A(false), B(true)); grp("rplus/t", y, Xc.rplus(perturbed(T)), b); } break;
    case 9: { GD y = X.lplus(T, A(true), B(false)); grp("lplus/m", y, perturbed(X).lplus(Tc), a); } break;
    case 10: { GD y = X.lplus(T, A(false), B(true)); grp("lplus/t", y, Xc.lplus(perturbed(T)), b); } break;
    case 11: { TD y = X.rminus(Y, A(true), B(false)); r.needs_log = true; vec("rminus/a", y, perturbed(X).rminus(Yc), a); } break;
    case 12: { TD y = X.rminus(Y, A(false), B(true)); r.needs_log = true; vec("rminus/b", y, Xc.rminus(perturbed(Y)), b); } break;
    case 13: { TD y = X.lminus(Y, A(true), B(false)); r.needs_log = true; vec("lminus/a", y, perturbed(X).lminus(Yc), a); } break;
    case 14: { TD y = X.lminus(Y, A(false), B(true)); r.needs_log = true; vec("lminus/b", y, Xc.lminus(perturbed(Y)), b); } break;
    case 15: {
      Eigen::Matrix<double, GD::Dim, GD::DoF> jm; Eigen::Matrix<double, GD::Dim, GD::Dim> jv;
      const auto y = X.act(pt, jm, jv);
      typename GroupT::Vector pj; for (int i = 0; i < N; ++i) pj(i) = Scalar(pt(i));
      const auto yj = perturbed(X).act(pj);
      r.name = "act/m"; r.Jan = toML(jm); r.Jad = dvec(yj, D); r.perr = primal_err(yj, y, S); r.rows_tan = false;
    } break;
    case 16: {
      Eigen::Matrix<double, GD::Dim, GD::DoF> jm; Eigen::Matrix<double, GD::Dim, GD::Dim> jv;
      const auto y = X.act(pt, jm, jv);
      typename GroupT::Vector pj; for (int i = 0; i < N; ++i) pj(i) = Scalar((double)pt(i), i < D ? i : 0);
      if (N > D) { r.ok = false; break; }
      const auto yj = Xc.act(pj);
      r.name = "act/v"; r.Jan = toML(jv); r.Jad = dvec(yj, N); r.perr = primal_err(yj, y, S); r.rows_tan = false; r.cols_tan = false;
    } break;
    // ---- functors over raw pointers of duals
    case 17: case 18: case 19: case 20: {
      // local parameterisation / manifold Plus: out = state (+) delta
      std::vector<Scalar> st(R), de(D), out(R);
      const bool wrt_state = (idx == 17 || idx == 19);
      const GroupT Xs = wrt_state ? perturbed(X) : Xc; const TangentT Td = wrt_state ? Tc : perturbed(T);
      r.check_valid = true;
      for (int i = 0; i < R; ++i) st[i] = Xs.coeffs()(i);
      for (int i = 0; i < D; ++i) de[i] = Td.coeffs()(i);
      bool okf;
      if (idx <= 18) okf = manif::CeresLocalParameterizationFunctor<GD>()(st.data(), de.data(), out.data());
      else okf = manif::CeresManifoldFunctor<GD>().Plus(st.data(), de.data(), out.data());
      const GD y = X.rplus(T, a, b);
      const Eigen::Map<const GroupT> o(out.data());
      r.name = idx == 17 ? "LocalParameterization/state" : idx == 18 ? "LocalParameterization/delta" : idx == 19 ? "Manifold::Plus/state" : "Manifold::Plus/delta";
      r.Jan = toML(wrt_state ? a : b); r.Jad = djac(GroupT(o), y); r.perr = primal_err(o.coeffs(), y.coeffs(), S); r.ok = okf;
      { VecL oc(R); for (int i = 0; i < R; ++i) oc(i) = o.coeffs()(i).a; r.out_dev = (double)rot_norm_dev(SpecOf<GD>::get(), oc); }
    } break;
    case 21: case 22: {
      // manifold Minus: out = y (-) x
      std::vector<Scalar> yb(R), xb(R), out(D);
      const GroupT Yj = (idx == 21) ? perturbed(Y) : Yc, Xj = (idx == 22) ? perturbed(X) : Xc;
      for (int i = 0; i < R; ++i) { yb[i] = Yj.coeffs()(i); xb[i] = Xj.coeffs()(i); }
      const bool okf = manif::CeresManifoldFunctor<GD>().Minus(yb.data(), xb.data(), out.data());
      const TD y = Y.rminus(X, a, b);
      const Eigen::Map<const TangentT> o(out.data());
      r.name = idx == 21 ? "Manifold::Minus/y" : "Manifold::Minus/x"; r.needs_log = true;
      r.Jan = toML(idx == 21 ? a : b); r.Jad = dvec(o.coeffs(), D); r.perr = primal_err(o.coeffs(), y.coeffs(), S); r.ok = okf;
    } break;
    case 23: {
      // objective: || target (-) state || * weight   (not differentiable at target == state: excluded by the caller)
      const GD target = Y; const double w = 0.25 + 4 * w_obj;
      const manif::CeresObjectiveFunctor<GD> f(target, w);
      std::vector<Scalar> st(R); Scalar res;
      const GroupT Xj = perturbed(X);
      for (int i = 0; i < R; ++i) st[i] = Xj.coeffs()(i);
      const bool okf = f(st.data(), &res);
      const TD d = Y.rminus(X, a, b);
      const double nrm = d.coeffs().norm();
      r.name = "Objective/state"; r.needs_log = true;
      MatL Jan(1, D);
      const Eigen::Matrix<double, 1, GD::DoF> g = (d.coeffs().transpose() * b) * (w / nrm);
      for (int j = 0; j < D; ++j) Jan(0, j) = g(j);
      r.Jan = Jan; r.Jad = MatL(1, D); for (int j = 0; j < D; ++j) r.Jad(0, j) = res.v(j);
      // the gradient is the product d^T J_b w/|d|: its rounding / truncation scale is |d|^T |J_b| w/|d|
      r.scale = MatL(toML(Eigen::Matrix<double, 1, GD::DoF>(d.coeffs().cwiseAbs().transpose())) * block_max_matrix(SpecOf<GD>::get(), toML(b))) * (LD)(w / nrm);
      r.perr = std::fabs(res.a - nrm * w) / std::max(1.0, nrm * w * S); r.rows_tan = false; r.ok = okf && nrm > 1e-3;
    } break;
    default: {
      // constraint: sqrt_info * ( measurement - (future (-) past) )
      using CF = manif::CeresConstraintFunctor<GD>;
      typename CF::Covariance cov = CF::Covariance::Identity();
      for (int i = 0; i < D; ++i) cov(i, i) = 0.01 + cov_scale * (1 + i);
      // half of the cases: a full (non-diagonal) SPD covariance  D + a v v^T
      const bool full = w_obj > 0.5;
      if (full) {
        Eigen::Matrix<double, GD::DoF, 1> v; for (int i = 0; i < D; ++i) v(i) = std::sin(1.0 + 3.7 * i + 10 * w_obj);
        cov += (0.5 + cov_scale) * v * v.transpose();
      }
      const typename CF::Covariance covc = cov;
      // the covariance is given either to the constructor or through the setter after construction
      const bool via_setter = cov_scale > 0.5;
      const typename CF::Covariance cov0 = via_setter ? typename CF::Covariance(CF::Covariance::Identity()) : covc;
      CF f(U, cov0);
      if (via_setter) f.setMeasurementCovariance(covc);
      std::vector<Scalar> pa(R), fu(R), out(D);
      const bool wrt_past = idx == 24;
      const GroupT Pj = wrt_past ? perturbed(X) : Xc, Fj = wrt_past ? Yc : perturbed(Y);
      for (int i = 0; i < R; ++i) { pa[i] = Pj.coeffs()(i); fu[i] = Fj.coeffs()(i); }
      const bool okf = f(pa.data(), fu.data(), out.data());
      const TD d = Y.rminus(X, a, b);   // future (-) past: a = d/dfuture, b = d/dpast
      const Eigen::Map<const TangentT> o(out.data());
      const Eigen::Matrix<double, GD::DoF, 1> e = U.coeffs() - d.coeffs();
      const typename CF::Covariance info = covc.inverse();
      r.name = wrt_past ? "Constraint/past" : "Constraint/future"; r.needs_log = true; r.rows_tan = false; r.ok = okf;
      if (!full) {
        // diagonal covariance: the upper square root of the information is diag(1/sigma)
        Eigen::Matrix<double, GD::DoF, GD::DoF> Uinfo = Eigen::Matrix<double, GD::DoF, GD::DoF>::Zero();
        for (int i = 0; i < D; ++i) Uinfo(i, i) = 1.0 / std::sqrt(cov(i, i));
        const Eigen::Matrix<double, GD::DoF, 1> want = Uinfo * e;
        r.Jan = toML(JacD(-(Uinfo * (wrt_past ? b : a)))); r.Jad = dvec(o.coeffs(), D);
        r.scale = toML(Uinfo) * block_max_matrix(SpecOf<GD>::get(), toML(wrt_past ? b : a));
        double sc = 1; for (int i = 0; i < D; ++i) sc = std::max(sc, Uinfo(i, i));
        r.perr = primal_err(o.coeffs(), want, S * sc * (1 + U.coeffs().cwiseAbs().maxCoeff()));
      } else {
        // full covariance, independent of the factorisation convention: |r|^2 is the Mahalanobis distance e^T cov^-1 e
        // and its derivative is -2 e^T cov^-1 J
        double n2 = 0; typename Scalar::Vec g = Scalar::Vec::Zero();
        for (int i = 0; i < D; ++i) { n2 += o.coeffs()(i).a * o.coeffs()(i).a; g += 2 * o.coeffs()(i).a * o.coeffs()(i).v; }
        const double want = e.dot(info * e);
        const Eigen::Matrix<double, 1, GD::DoF> gw = -2.0 * (e.transpose() * info) * (wrt_past ? b : a);
        MatL Jan(1, D), Jad(1, D);
        for (int j = 0; j < D; ++j) { Jan(0, j) = gw(j); Jad(0, j) = g(j); }
        r.Jan = Jan; r.Jad = Jad;
        // rounding scale of e = m - d (it may cancel), and conditioning of the inversion of the covariance
        const Eigen::Matrix<double, GD::DoF, 1> ae = (U.coeffs().cwiseAbs() + d.coeffs().cwiseAbs()) * S + Eigen::Matrix<double, GD::DoF, 1>::Constant(1e-150);   // squared below: keep the floor representable
        const typename CF::Covariance ainfo = info.cwiseAbs();
        const double cond = D * covc.cwiseAbs().maxCoeff() * ainfo.maxCoeff();
        r.scale = MatL(toML(Eigen::Matrix<double, 1, GD::DoF>(2.0 * cond * (ae.transpose() * ainfo))) * block_max_matrix(SpecOf<GD>::get(), toML(wrt_past ? b : a)));
        r.perr = std::fabs(n2 - want) / (cond * (ae.transpose() * ainfo * ae)(0));
        r.name += "(full covariance)";
        // the square root must be the UPPER factor (info = R^T R, R upper): its first row is info(0,:)/sqrt(info(0,0)),
        // whichever way it is computed
        const double u00 = std::sqrt(info(0, 0));
        double r0 = 0; for (int j = 0; j < D; ++j) r0 += info(0, j) / u00 * e(j);
        r.perr = std::max(r.perr, std::fabs(o.coeffs()(0).a - r0) / (cond * (ainfo.row(0) * ae)(0) / u00));
      }
    } break;
  }
  return r;
}

vf::Outcome run_case(const vf::Case& c, const vf::RunCtx& ctx) {
  const Spec s = spec();
  Chk k(ctx);
  const double* p = c.reals.data();
  const int idx = (int)c.ints[0];
  try {
    GD X = make_elem<GD>(p); const GD Y = make_elem<GD>(p + R);
    if (idx >= 17 && idx <= 20) {
      // a raw-pointer state handed to the functors is "valid" when it is inside the acceptance band, not only unit to rounding
      typename GD::DataType d = X.coeffs();
      const LD f = 1.0L + 0.9L * (LD)manif::Constants<double>::eps * (2 * (LD)c.reals[2 * R + 2 * D + N] - 1);
      for (size_t b = 0; b < s.e.size(); ++b) { const Elem& e = s.e[b]; if (e.k == K_RN) continue;
        for (int i = 0; i < e.nrot(); ++i) d(s.rep_off((int)b) + e.rot0() + i) = (double)((LD)d(s.rep_off((int)b) + e.rot0() + i) * f); }
      X = GD(d);
    }
    const TD T = make_tan<GD>(p + 2 * R), U = make_tan<GD>(p + 2 * R + D);
    const typename GD::Vector pt = make_pt<GD>(p + 2 * R + 2 * D);
    const VecL xc = toVL(X.coeffs()), yc = toVL(Y.coeffs());
    // coordinate scale (rounding model as in C05)
    const MatL MX = ref_mat(s, xc), MY = ref_mat(s, yc), MXi = ref_inv(s, MX), MYi = ref_inv(s, MY);
    std::vector<LD> Sv = scale_add(ref_lin_scale_c(s, xc), ref_lin_scale_c(s, yc));
    Sv = scale_add(Sv, ref_lin_scale_t(s, toVL(T.coeffs())));
    Sv = scale_add(Sv, ref_lin_scale_c(s, ref_coeffs(s, MatL(MX * MY))));
    Sv = scale_add(Sv, ref_lin_scale_c(s, ref_coeffs(s, MatL(MXi * MY))));
    Sv = scale_add(Sv, ref_lin_scale_c(s, ref_coeffs(s, MatL(MYi * MX))));
    Sv = scale_add(Sv, ref_lin_scale_c(s, ref_coeffs(s, MatL(MX * MYi))));
    {
      const MatL E = ref_exp(s, toVL(T.coeffs()));
      Sv = scale_add(Sv, ref_lin_scale_c(s, ref_coeffs(s, MatL(MX * E))));
      Sv = scale_add(Sv, ref_lin_scale_c(s, ref_coeffs(s, MatL(E * MX))));
    }
    double S = 1; for (LD v : Sv) S = std::max(S, (double)v);
    for (int i = 0; i < N; ++i) S = std::max(S, 1 + std::fabs((double)pt(i)));
    for (size_t b = 0; b < s.e.size(); ++b) if (s.e[b].k == K_SGAL3) S *= 1 + std::fabs((double)xc(s.rep_off((int)b) + 10));
    const Res r = evaluate(idx, c.ints[1] != 0, X, Y, T, U, pt, c.reals[2 * R + 2 * D + N], c.reals[2 * R + 2 * D + N + 1], S);
    k.label("op=" + r.name);
    if (!r.ok) { k.label("excluded: not differentiable / not applicable"); k.inconclusive("excluded point"); return k.o; }
    // domain: logarithm away from the cut
    if (r.needs_log && s.has_rotation()) {
      LD cut = 0;
      MatL M = (r.name == "log") ? MX : ((r.name.rfind("lminus", 0) == 0) ? MatL(MX * MYi) : MatL(MXi * MY));
      for (LD ang : ref_angles_of_coeffs(s, ref_coeffs(s, M))) cut = std::max(cut, ang);
      if (cut > M_PI - 1e-6) { k.label("skipped: logarithm within 1e-6 of the cut"); k.inconclusive("outside the domain"); return k.o; }
    }
    if (r.check_valid) k.bound("functor output valid:" + r.name, r.out_dev, manif::Constants<double>::eps, r.name + ": the state written by the functor is not a valid element");
    k.bound("primal:" + r.name, r.perr, 64 * kU * 4, r.name + ": primal part over the dual scalar differs from the double computation");
    MatL extra;
    // In the small-angle (Taylor) branches AD differentiates the truncated series: dropping W^2/12 from V^-1 below
    // theta = 3e-7 leaves a derivative error of theta*|p|/6 <= 5e-8*|p| on the rows of linear type, i.e. relative to the
    // coordinate scale S, not to the (possibly much smaller) Jacobian block. Allowance: 1e-7 * S on those rows.
    const LD ad_allow = 1e-7L / (LD)kJacTol;
    if (r.rows_tan && r.cols_tan) extra = lin_row_scale(s, Sv) * ad_allow;
    else if (r.scale.size()) { extra = r.scale; if (r.needs_log) extra.array() += (LD)S * ad_allow; }
    const LD err = jac_block_err(s, r.Jad, r.Jan, r.rows_tan, r.cols_tan, extra.size() ? &extra : nullptr);
    k.bound("AD=analytic:" + r.name, (double)err, kJacTol, r.name + ": derivative through the dual parts differs from the analytic Jacobian");
    int nz = 0; for (int i = 0; i < r.Jad.rows(); ++i) for (int j = 0; j < r.Jad.cols(); ++j) if (r.Jad(i, j) != 0) ++nz;
    LD th = 0; for (LD ang : ref_angles_of_coeffs(s, xc)) th = std::max(th, ang);
    const LD tt = tan_theta_max(s, toVL(T.coeffs()));
    k.o.nontrivial = (!s.has_rotation() || th != 0) && nz >= std::min(D, (int)r.Jad.rows());
    k.label(std::string("t:") + theta_stratum((double)tt, false));
  } catch (const std::exception& e) {
    k.require("nothrow", false, std::string("exception: ") + e.what());
  }
  return k.o;
}

#else
// =====================================================================================================
// float configurations: single precision agrees with double to single-precision accuracy
using GD = typename GroupT::template LieGroupTemplate<double>;
using TD = typename GD::Tangent;

vf::Shape shape() {
  Shape sh;
  sh.n_elems = 2;
  sh.n_tangents = 1;
  sh.n_points = 1;
  sh.tp = TP_INJ;
  sh.ep = EP_MODERATE;
  sh.is_float = true;
  return sh;
}

template <class A, class B> static double relerr(const A& f, const B& d, double scale) {
  double w = 0;
  for (int i = 0; i < d.rows(); ++i) for (int j = 0; j < d.cols(); ++j) { double e = std::fabs((double)f(i, j) - (double)d(i, j)) / scale; if (!(e == e)) e = INFINITY; w = std::max(w, e); }
  return w;
}

vf::Outcome run_case(const vf::Case& c, const vf::RunCtx& ctx) {
  static_assert(kIsFloat, "C12 plain configurations are the float ones");
  const Spec s = spec();
  Chk k(ctx);
  const double* p = c.reals.data();
  try {
    const GroupT X = make_elem<GroupT>(p), Y = make_elem<GroupT>(p + R);
    const TangentT T = make_tan<GroupT>(p + 2 * R);
    const typename GroupT::Vector pt = make_pt<GroupT>(p + 2 * R + D);
    // identical inputs in double; the rotation data is re-normalised to double precision exactly as cast<double>() does
    const GD Xd = X.template cast<double>(), Yd = Y.template cast<double>();
    TD Td; for (int i = 0; i < D; ++i) Td.coeffs()(i) = (double)T.coeffs()(i);
    typename GD::Vector pd; for (int i = 0; i < N; ++i) pd(i) = (double)pt(i);
    const VecL xc = toVL(Xd.coeffs()), yc = toVL(Yd.coeffs());
    const MatL MX = ref_mat(s, xc), MY = ref_mat(s, yc), MXi = ref_inv(s, MX), MYi = ref_inv(s, MY);
    std::vector<LD> Sv = scale_add(ref_lin_scale_c(s, xc), ref_lin_scale_c(s, yc));
    Sv = scale_add(Sv, ref_lin_scale_t(s, toVL(Td.coeffs())));
    Sv = scale_add(Sv, ref_lin_scale_c(s, ref_coeffs(s, MatL(MX * MY))));
    Sv = scale_add(Sv, ref_lin_scale_c(s, ref_coeffs(s, MatL(MXi * MY))));
    Sv = scale_add(Sv, ref_lin_scale_c(s, ref_coeffs(s, MatL(MX * MYi))));
    {
      const MatL E = ref_exp(s, toVL(Td.coeffs()));
      Sv = scale_add(Sv, ref_lin_scale_c(s, ref_coeffs(s, MatL(MX * E))));
      Sv = scale_add(Sv, ref_lin_scale_c(s, ref_coeffs(s, MatL(E * MX))));
    }
    double S = 1; for (LD v : Sv) S = std::max(S, (double)v);
    for (int i = 0; i < N; ++i) S = std::max(S, 1 + std::fabs((double)pt(i)));
    // exp(t)*X multiplies the rounding error of exp(t) by the time coordinate of X (SGal3: p = R_E p_X + t_X v_E + p_E)
    for (size_t b = 0; b < s.e.size(); ++b) if (s.e[b].k == K_SGAL3) S *= 1 + std::fabs((double)xc(s.rep_off((int)b) + 10));
    const double tol = kValTol;   // 2^12 u_float
    auto grp = [&](const std::string& n, const GroupT& f, const GD& d) {
      // compare as transformations (q / -q and the float renormalisation do not matter)
      k.bound("float~double:" + n, (double)ref_group_err(s, ref_mat(s, toVL(f.coeffs())), ref_mat(s, toVL(d.coeffs())), {(LD)S}), tol, n + ": float result differs from the double one by more than single precision");
    };
    grp("compose", X * Y, Xd * Yd); grp("inverse", X.inverse(), Xd.inverse()); grp("between", X.between(Y), Xd.between(Yd));
    grp("exp", T.exp(), Td.exp()); grp("rplus", X + T, Xd + Td); grp("lplus", X.lplus(T), Xd.lplus(Td));
    k.bound("float~double:act", relerr(X.act(pt), Xd.act(pd), S), tol, "act: float differs from double");
    // logarithm-type results compared on the group (well conditioned everywhere)
    {
      const TangentT l = X.log(); const TD ld = Xd.log();
      k.bound("float~double:log", (double)ref_group_err(s, ref_exp(s, toVL(l.coeffs())), ref_exp(s, toVL(ld.coeffs())), {(LD)S}), tol, "log: float differs from double");
      const TangentT m = X.rminus(Y); const TD md = Xd.rminus(Yd);
      k.bound("float~double:rminus", (double)ref_group_err(s, ref_exp(s, toVL(m.coeffs())), ref_exp(s, toVL(md.coeffs())), {(LD)S}), tol, "rminus: float differs from double");
    }
    // matrices: block-relative (as the Jacobian checks), to single-precision accuracy
    {
      const MatL scX = lin_row_scale(s, ref_lin_scale_c(s, xc));
      k.bound("float~double:adj", (double)jac_block_err(s, toML(X.adj()), toML(Xd.adj()), true, true, &scX), tol, "adj: float differs from double");
      const MatL scT = lin_row_scale(s, ref_lin_scale_t(s, toVL(Td.coeffs())));
      k.bound("float~double:rjac", (double)jac_block_err(s, toML(T.rjac()), toML(Td.rjac()), true, true, &scT), tol, "rjac: float differs from double");
      k.bound("float~double:ljac", (double)jac_block_err(s, toML(T.ljac()), toML(Td.ljac()), true, true, &scT), tol, "ljac: float differs from double");
      typename GroupT::Jacobian Jf; typename GD::Jacobian Jd;
      T.exp(Jf); Td.exp(Jd);
      k.bound("float~double:J_exp", (double)jac_block_err(s, toML(Jf), toML(Jd), true, true, &scT), tol, "Jacobian of exp: float differs from double");
    }
    k.bound("float~double:hat", relerr(T.hat(), Td.hat(), 1.0), 0.0, "hat: float differs from double on float inputs");
    k.o.nontrivial = tan_theta_max(s, toVL(Td.coeffs())) != 0;
    k.label(std::string("t:") + theta_stratum((double)tan_theta_max(s, toVL(Td.coeffs())), true));
  } catch (const std::exception& e) {
    k.require("nothrow", false, std::string("exception: ") + e.what());
  }
  return k.o;
}
#endif

}  // namespace vfp
