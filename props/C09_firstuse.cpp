// C09 (process-level part): the first use of every lazily initialised static, performed in a generated
// order, must not be observable: the dump of all results is identical whatever the order.
// usage: C09_firstuse <seed>   prints one line per helper (sorted by name), hex of the result bytes
#include <manif/manif.h>
#include <algorithm>
#include <cstdint>
#include <cstdio>
#include <cstring>
#include <functional>
#include <map>
#include <string>
#include <vector>
using namespace manif;

static std::map<std::string, std::string> out;
template <class M> static std::string hexof(const M& m) {
  std::string s;
  for (int i = 0; i < m.rows(); ++i) for (int j = 0; j < m.cols(); ++j) {
    double v = (double)m(i, j); uint64_t b; std::memcpy(&b, &v, 8);
    char buf[20]; snprintf(buf, sizeof buf, "%016llx", (unsigned long long)b); s += buf;
  }
  return s;
}
template <class G> static void add(const std::string& n, std::vector<std::pair<std::string, std::function<void()>>>& ops) {
  using T = typename G::Tangent;
  ops.push_back({n + "::Identity", [n] { out[n + "::Identity"] = hexof(G::Identity().coeffs()); }});
  ops.push_back({n + "::setIdentity", [n] { G x; x.setIdentity(); out[n + "::setIdentity"] = hexof(x.coeffs()); }});
  ops.push_back({n + "::Zero", [n] { out[n + "::Zero"] = hexof(T::Zero().coeffs()); }});
  ops.push_back({n + "::InnerWeights", [n] { out[n + "::InnerWeights"] = hexof(T::InnerWeights()); }});
  for (int i = 0; i < G::DoF; ++i)
    ops.push_back({n + "::Generator" + std::to_string(i), [n, i] { out[n + "::Generator" + std::to_string(i)] = hexof(T::Generator(i)); }});
  ops.push_back({n + "::adj(Identity-free)", [n] { typename T::DataType d; for (int i = 0; i < G::DoF; ++i) d(i) = 0.1 * (i + 1); T t(d); out[n + "::adj"] = hexof(t.exp().adj()); }});
  ops.push_back({n + "::rjac", [n] { typename T::DataType d; for (int i = 0; i < G::DoF; ++i) d(i) = 0.05 * (i + 1); T t(d); out[n + "::rjac"] = hexof(t.rjac()) + hexof(t.ljac()) + hexof(t.smallAdj()) + hexof(t.rjacinv()); }});
}
int main(int argc, char** argv) {
  uint64_t seed = argc > 1 ? strtoull(argv[1], nullptr, 10) : 1;
  std::vector<std::pair<std::string, std::function<void()>>> ops;
  add<SO2d>("SO2d", ops); add<SE2d>("SE2d", ops); add<SO3d>("SO3d", ops); add<SE3d>("SE3d", ops); add<SE_2_3d>("SE_2_3d", ops);
  add<SGal3d>("SGal3d", ops); add<R3d>("R3d", ops); add<SO2f>("SO2f", ops); add<SE3f>("SE3f", ops);
  add<Bundle<double, SE3, SO2, R3>>("Bundle", ops);
  // Fisher-Yates with an LCG: the order of first uses is the generated input
  uint64_t st = seed * 6364136223846793005ULL + 1442695040888963407ULL;
  for (size_t i = ops.size(); i > 1; --i) {
    st = st * 6364136223846793005ULL + 1442695040888963407ULL;
    std::swap(ops[i - 1], ops[(st >> 33) % i]);
  }
  for (auto& o : ops) o.second();
  for (auto& o : ops) o.second();   // second use must agree with the first
  for (auto& kv : out) printf("%s %s\n", kv.first.c_str(), kv.second.c_str());
  fprintf(stderr, "order: %s %s %s ...\n", ops[0].first.c_str(), ops[1].first.c_str(), ops[2].first.c_str());
  return 0;
}
