// C03 -- log is the principal inverse of exp on every valid element.
#include "vf_manif.h"

using namespace vf;
using namespace vfcfg;

VF_STD_PROPERTY("C03", "w<0 in some element, or rotation within 1e-3 of pi, or |v|<1e-6, or element produced by a composition chain; distinct = distinct input bit patterns")

namespace vfp {

vf::Shape shape() {
  Shape sh;
  sh.n_elems = 3;
  sh.n_tangents = 1;
  sh.tp = TP_INJ;
  sh.ep = EP_ALL;
  sh.ints = {{1, 3}};   // chain length
  sh.is_float = kIsFloat;
  return sh;
}

// angle of each rotation-bearing element of a tangent
static LD max_angle(const Spec& s, const VecL& t) { return tan_theta_max(s, t); }

static void log_checks(Chk& k, const Spec& s, const GroupT& X, const char* tag, Prec prec) {
  const std::string T = tag;
  TangentT L;
  try { L = X.log(); } catch (const std::exception& e) { k.require(T + "log.nothrow", false, e.what()); return; }
  k.require(T + "log.finite", all_finite(L.coeffs()), "non-finite log");
  if (!all_finite(L.coeffs())) return;
  const VecL xc = toVL(X.coeffs()), lv = toVL(L.coeffs());
  // principal: rotation angle at most pi
  k.bound(T + "log.principal", (double)max_angle(s, lv), M_PI * (1 + 4 * kU), "rotation angle of log exceeds pi");
  // exp(log X) = X as a transformation (compared on the group, well conditioned everywhere)
  const MatL MX = ref_mat(s, xc, prec);
  const MatL E = ref_exp(s, lv, prec);
  k.expect(T + "exp(log)=X", (double)ref_group_err(s, E, MX, ref_lin_scale_c(s, xc)), kValTol, "expm(hat(X.log())) != Mat(X)");
  // same through manif's own exp
  try {
    const GroupT X2 = L.exp();
    const MatL M2 = ref_mat(s, toVL(X2.coeffs()), prec);
    k.expect(T + "log.exp=X", (double)ref_group_err(s, M2, MX, ref_lin_scale_c(s, xc)), kValTol, "X.log().exp() != X");
  } catch (const std::exception& e) { k.require(T + "log.exp.nothrow", false, e.what()); }
}

static void check(Chk& k, const Spec& s, const Case& c, Prec prec) {
  const int R = s.rep(), D = s.dof();
  const double* p = c.reals.data();
  const int chain = (int)c.ints[0];
  GroupT X = make_elem<GroupT>(p);
  for (int i = 1; i < chain; ++i) X = X * make_elem<GroupT>(p + i * R);
  log_checks(k, s, X, "", prec);

  // q and -q denote the same transformation: same logarithm (3D rotations only; skip w == 0 exactly)
  {
    typename GroupT::DataType d = X.coeffs();
    bool any = false, wzero = false;
    for (size_t b = 0; b < s.e.size(); ++b) {
      const Elem& e = s.e[b];
      if (e.k == K_RN || e.nrot() != 4) continue;
      any = true;
      int o = s.rep_off((int)b) + e.rot0();
      if (d(o + 3) == 0) wzero = true;
      for (int i = 0; i < 4; ++i) d(o + i) = -d(o + i);
    }
    if (any && !wzero) {
      const GroupT Xn(d);
      const VecL a = toVL(X.log().coeffs()), b2 = toVL(Xn.log().coeffs());
      const std::vector<LD> S = ref_lin_scale_c(s, toVL(X.coeffs()));
      LD worst = 0;
      for (size_t b = 0; b < s.e.size(); ++b) {
        const Elem& e = s.e[b];
        for (int i = 0; i < e.dof(); ++i) {
          bool is_ang = e.k != K_RN && i >= e.ang0() && i < e.ang0() + e.nang();
          LD sc = is_ang ? 4.0L : S[b];   // angles are O(pi)
          worst = std::max(worst, fabsl(a(s.dof_off((int)b) + i) - b2(s.dof_off((int)b) + i)) / sc);
        }
      }
      k.expect("log(q)=log(-q)", (double)worst, 64 * kU, "log differs between q and -q");
      log_checks(k, s, Xn, "-q:", prec);
    }
  }

  // t.exp().log() = t inside the injectivity radius
  {
    const VecL t = vecL(p + 3 * R, D);
    const TangentT T = make_tan<GroupT>(p + 3 * R);
    const VecL r = toVL(T.exp().log().coeffs());
    const std::vector<LD> S = ref_lin_scale_t(s, t);
    LD worst = 0;
    for (size_t b = 0; b < s.e.size(); ++b) {
      const Elem& e = s.e[b];
      for (int i = 0; i < e.dof(); ++i) {
        bool is_ang = e.k != K_RN && i >= e.ang0() && i < e.ang0() + e.nang();
        LD sc = is_ang ? 4.0L : S[b];
        LD d = fabsl(r(s.dof_off((int)b) + i) - t(s.dof_off((int)b) + i)) / sc;
        if (!(d == d)) d = INFINITY;
        worst = std::max(worst, d);
      }
    }
    k.expect("exp.log=t", (double)worst, kValTol, "t.exp().log() != t");
  }
}

vf::Outcome run_case(const vf::Case& c, const vf::RunCtx& ctx) {
  const Spec s = spec();
  Chk k(ctx);
  check(k, s, c, P_LD);
  if (k.suspicious(0.1)) { Chk k2(ctx); check(k2, s, c, P_MP); k2.o.confirmed_mp = 1; k = k2; }
  // classification
  const int R = s.rep();
  const int chain = (int)c.ints[0];
  GroupT X = make_elem<GroupT>(c.reals.data());
  for (int i = 1; i < chain; ++i) X = X * make_elem<GroupT>(c.reals.data() + i * R);
  const VecL xc = toVL(X.coeffs());
  const LD w = coeff_w_min(s, xc);
  std::vector<LD> ang = ref_angles_of_coeffs(s, xc);
  LD amax = 0, amin = INFINITY;
  for (LD a : ang) { amax = std::max(amax, a); amin = std::min(amin, a); }
  bool near_pi = amax > M_PI - 1e-3;
  bool tiny_v = s.has_rotation() && amin < 2e-6;
  if (w < 0) k.label("w<0");
  if (near_pi) k.label("angle within 1e-3 of pi");
  if (tiny_v) k.label("|v|<1e-6");
  if (w < 0 && tiny_v) k.label("w<0 and |v|<1e-6");
  k.label("chain=" + std::to_string(chain));
  k.label(std::string(mag_decade((double)coeff_lin_max(s, xc))));
  k.o.nontrivial = (w < 0) || near_pi || tiny_v || chain > 1;
  return k.o;
}

}  // namespace vfp
