// C16 -- averages are valid, stationary and equivariant.
#include "vf_manif.h"
#include <cstring>
#include <algorithm>
#include <vector>

using namespace vf;
using namespace vfcfg;

VF_STD_PROPERTY("C16", "n >= 3 points, spread >= 1e-2 and centre rotation >= 0.1 (when the group has a rotation); distinct = distinct input bit patterns")

namespace vfp {

static const int R = GroupT::RepSize, D = GroupT::DoF;
static const int kMaxPts = 50;

vf::Shape shape() {
  Shape sh;
  sh.n_elems = 3;                 // centre C, left translation g, right translation h
  sh.n_tangents = kMaxPts;        // offsets delta_i, |delta_i| <= 0.5
  sh.tp = TP_SMALL;
  sh.ep = EP_MODERATE;
  sh.ints = {{0, kMaxPts}, {0, 3}, {0, 1000000}, {0, 5}};   // n, routine, permutation seed, mode (0: identical points)
  sh.is_float = kIsFloat;
  return sh;
}

static const char* kRoutine[4] = {"average_biinvariant", "average_frechet_left", "average_frechet_right", "average"};

static GroupT run_avg(int r, const std::vector<GroupT>& pts) {
  switch (r) {
    case 0: return manif::average_biinvariant(pts);
    case 1: return manif::average_frechet_left(pts);
    case 2: return manif::average_frechet_right(pts);
    default: return manif::average(pts);
  }
}
template <class F> static int throws(F f) {
  try { f(); } catch (const std::exception&) { return 1; } catch (...) { return 2; }
  return 0;
}

// tangent-norm distance between two elements on the reference model: | log(A^-1 B) |, per element block
// scaled so that linear components are relative to the coordinate scale
static double dist(const Spec& s, const GroupT& A, const GroupT& B, bool& ok) {
  const MatL MA = ref_mat(s, toVL(A.coeffs())), MB = ref_mat(s, toVL(B.coeffs()));
  VecL d;
  ok = ref_log(s, MatL(ref_inv(s, MA) * MB), d);
  if (!ok) {
    // long double could not certify the logarithm (large coordinates): redo the whole chain in 50 digits
    const MatL MA2 = ref_mat(s, toVL(A.coeffs()), P_MP), MB2 = ref_mat(s, toVL(B.coeffs()), P_MP);
    ok = ref_log(s, MatL(ref_inv(s, MA2, P_MP) * MB2), d, P_MP);
  }
  if (!ok) return INFINITY;
  const LD n = d.norm();
  return (n == n) ? (double)n : INFINITY;
}

vf::Outcome run_case(const vf::Case& c, const vf::RunCtx& ctx) {
  const Spec s = spec();
  Chk k(ctx);
  const double* p = c.reals.data();
  const int n = (int)c.ints[0], rt = (int)c.ints[1], mode = (int)c.ints[3];
  const double stop = std::sqrt((double)manif::Constants<Scalar>::eps);   // the routines stop when |step|^2 < eps
  const double tol_res = 2.02 * stop, tol_eq = 20 * stop;                 // 3e-7 / 3e-6 in double
  double spread = 0;
  try {
    const GroupT C = make_elem<GroupT>(p), G = make_elem<GroupT>(p + R), H = make_elem<GroupT>(p + 2 * R);
    std::vector<GroupT> pts;
    for (int i = 0; i < n; ++i) {
      const TangentT d = make_tan<GroupT>(p + 3 * R + (mode == 0 ? 0 : i) * D);
      spread = std::max(spread, (double)d.coeffs().norm());
      pts.push_back(C.rplus(d));
    }
    const std::string rn = kRoutine[rt];
    if (n == 0) {
      for (int q = 0; q < 4; ++q) k.require(std::string("empty raises:") + kRoutine[q], throws([&] { auto m = run_avg(q, pts); (void)m; }) == 1, std::string(kRoutine[q]) + ": empty set did not raise");
      k.label("empty set");
      return k.o;
    }
    // call history made explicit, so that every case (and its replay in a fresh process) is a two-call history: the same
    // routine is first run on a set of a different size (2 points, or the set repeated four times when it has fewer than 4)
    // and that result is discarded; the routines are pure, so this must not influence the call under test
    std::vector<GroupT> primer;
    if (n >= 4) primer.assign(pts.begin(), pts.begin() + 2);
    else for (int r = 0; r < 4; ++r) primer.insert(primer.end(), pts.begin(), pts.end());
    try { const GroupT pm = run_avg(rt, primer); (void)pm; } catch (const std::exception&) {}
    const GroupT m = run_avg(rt, pts);   // returning at all = terminated within the iteration budget
    {
      // ... and a different earlier call gives the same result bit for bit
      std::vector<GroupT> primer2(pts.begin(), pts.begin() + (n >= 2 ? n - 1 : 1));
      primer2.push_back(G); primer2.push_back(H);
      try { const GroupT pm = run_avg(rt, primer2); (void)pm; } catch (const std::exception&) {}
      const GroupT m_again = run_avg(rt, pts);
      k.require("history independent:" + rn, std::memcmp(m.data(), m_again.data(), R * sizeof(Scalar)) == 0, rn + ": the result depends on the calls made before (state kept between calls)");
    }
    k.require("finite:" + rn, all_finite(m.coeffs()), rn + ": non-finite result");
    if (!all_finite(m.coeffs())) return k.o;
    k.bound("valid:" + rn, (double)rot_norm_dev(s, toVL(m.coeffs())), (double)manif::Constants<Scalar>::eps, rn + ": result is not a valid element");
    const VecL mc = toVL(m.coeffs());
    const MatL Mm = ref_mat(s, mc);
    // noise floor of the comparisons: coordinates of the data
    const double S = (double)ref_lin_scale_c(s, toVL(C.coeffs()))[0];
    double Smax = 1;
    for (LD v : ref_lin_scale_c(s, toVL(C.coeffs()))) Smax = std::max(Smax, (double)v);
    (void)S;
    const double noise = 4096 * kU * Smax;

    if (mode == 0 || n == 1) {
      // identical points (or a single one): the average is that point
      bool ok; const double d0 = dist(s, pts[0], m, ok);
      if (ok) k.expect("identical points:" + rn, d0, kValTol * Smax * 4, rn + ": average of identical points is not that point");
      else k.label("distance oracle inconclusive");
      k.label(n == 1 ? "single point" : "identical points");
    }
    if (rt < 3 && n >= 1) {
      // stationarity: mean_i log(m^-1 X_i) = 0 up to the stopping tolerance
      VecL mean = VecL::Zero(D);
      bool all_ok = true;
      const MatL Mi = ref_inv(s, Mm);
      for (auto& x : pts) {
        VecL d;
        if (!ref_log(s, MatL(Mi * ref_mat(s, toVL(x.coeffs()))), d)) { all_ok = false; break; }
        mean += d;
      }
      if (all_ok) {
        mean /= (LD)n;
        k.expect("stationary:" + rn, (double)mean.norm(), tol_res + noise, rn + ": |mean_i log(m^-1 X_i)| exceeds the stopping tolerance");
      } else k.label("residual oracle inconclusive");
    }
    if (n >= 2) {
      // independence of the order of the points
      if (rt < 3) {
        std::vector<GroupT> perm = pts;
        uint64_t st = (uint64_t)c.ints[2] * 6364136223846793005ULL + 1442695040888963407ULL;
        for (size_t i = perm.size(); i > 1; --i) { st = st * 6364136223846793005ULL + 1442695040888963407ULL; std::swap(perm[i - 1], perm[(st >> 33) % i]); }
        bool ok; const double d1 = dist(s, m, run_avg(rt, perm), ok);
        if (ok) k.expect("order independent:" + rn, d1, tol_eq + noise, rn + ": result depends on the order of the points");
      }
      // left equivariance: avg(g X_i) = g avg(X_i)   (all four routines)
      {
        std::vector<GroupT> gp; for (auto& x : pts) gp.push_back(G * x);
        bool ok; const double d2 = dist(s, G * m, run_avg(rt, gp), ok);
        double Sg = 1; for (LD v : ref_lin_scale_c(s, toVL((G * m).coeffs()))) Sg = std::max(Sg, (double)v);
        if (ok) k.expect("left equivariant:" + rn, d2, tol_eq + 4096 * kU * Sg * Smax, rn + ": avg(g*X_i) != g*avg(X_i)");
      }
      // right equivariance: avg(X_i h) = avg(X_i) h   (bi-invariant mean and both Frechet variants)
      if (rt < 3) {
        std::vector<GroupT> hp; for (auto& x : pts) hp.push_back(x * H);
        bool ok; const double d3 = dist(s, m * H, run_avg(rt, hp), ok);
        // distances and stopping rules of the translated problem are related through Ad_h
        const MatL AdH = ref_Adj(s, ref_mat(s, toVL(H.coeffs())));
        const double amp = std::max(1.0, (double)std::max(maxabs(AdH), maxabs(ref_matinv(AdH)))) * D;
        double Sh = 1; for (LD v : ref_lin_scale_c(s, toVL((m * H).coeffs()))) Sh = std::max(Sh, (double)v);
        if (ok) k.expect("right equivariant:" + rn, d3, (tol_eq + 4096 * kU * Sh * Smax) * amp, rn + ": avg(X_i*h) != avg(X_i)*h");
      }
    }
    // classification
    LD crot = 0; for (LD a : ref_angles_of_coeffs(s, toVL(C.coeffs()))) crot = std::max(crot, a);
    k.o.nontrivial = n >= 3 && mode != 0 && spread >= 1e-2 && (!s.has_rotation() || crot >= 0.1);
    k.label(std::string("routine=") + kRoutine[rt]);
    k.label(n >= 10 ? "n>=10" : (n >= 3 ? "n in [3,10)" : "n<3"));
    if (crot > M_PI - 0.2) k.label("centre within 0.2 of the cut locus of log");
  } catch (const std::exception& e) {
    k.require("nothrow", false, std::string(kRoutine[rt]) + ": unexpected exception: " + e.what());
  }
  return k.o;
}

}  // namespace vfp
