#!/usr/bin/env python3
"""import_mutant.py <property> <k> <src-dir> "<summary>" "<needs>" [checks,comma]  : copies a sub-agent deliverable into seeded/<P>-s<k>/"""
import sys, os, json, shutil
pid, k, src, summary, needs = sys.argv[1:6]
checks = sys.argv[6].split(',') if len(sys.argv) > 6 else [pid]
mid = '%s-s%s' % (pid, k); d = os.path.join('/verif/seeded', mid); os.makedirs(d, exist_ok=True)
for f in os.listdir(src):
    if os.path.isfile(os.path.join(src, f)) and os.path.getsize(os.path.join(src, f)) < 200000 and not f.startswith('demo_') and f not in ('demo', 'a.out'):
        shutil.copy(os.path.join(src, f), os.path.join(d, f))
json.dump({'id': mid, 'property': pid,
           'origin': 'third-round fresh sub-agent given the text of %s, a scratch worktree and one line per earlier change; asked for sequences, unusual inputs, cooperating sites in less-travelled members' % pid,
           'summary': summary, 'needs': needs, 'checks': checks,
           'ran': 'lib/verify_mutant.sh (full repository suite 3x + demonstration on clean / changed tree, see verify.json); ./selftest (quick tier of the listed checks against a scratch worktree with the patch applied, see seeded/DETECTION.json)'},
          open(os.path.join(d, 'meta.json'), 'w'), indent=1)
print(mid, sorted(os.listdir(d)))
