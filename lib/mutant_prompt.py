#!/usr/bin/env python3
"""prints the prompt for a fresh mutation sub-agent for one property (no /verif content besides the property text)"""
import json, sys
pid = sys.argv[1]; wt = sys.argv[2]; out = sys.argv[3]; n = sys.argv[4] if len(sys.argv) > 4 else '3'
for l in open('/verif/properties.jsonl'):
    p = json.loads(l)
    if p['id'] == pid:
        break
print(f"""You are a software engineer helping to evaluate how good a set of (hidden) property checks for the C++ header-only Lie-group library artivis/manif is. You work ONLY inside your own scratch git worktree of the library at {wt} (headers under {wt}/include/manif, tests under {wt}/test, Eigen at /usr/include/eigen3, tl::optional at {wt}/external/tl). Do not read or write anything under /verif or /repo, and do not use the network (there is none).

## The property your changes must break
id: {p['id']} — {p['title']}
Statement: {p['statement']}
Quantified over: {p['quantifier']['text']}
Why the existing test-suite cannot settle it: {p['why_tests_cant']}
Code it is anchored in: {', '.join(p['anchors'].get('files', []))}

## Your task
Produce {n} DIFFERENT, realistic changes ("mutants") to the library source under {wt}/include (each one a small patch, the kind of slip or well-meant refactoring a developer could commit) such that, for each mutant:
1. the library and its existing test-suite still COMPILE, and the existing tests still PASS (see below how to check);
2. the property above is VIOLATED — for some input / history / configuration / schedule the library now behaves contrary to the statement;
3. the violation needs something specific to manifest: a particular region of the input space (e.g. a narrow band of rotation angles, a quaternion in the other hemisphere, a large translation combined with a tiny rotation, one particular group or scalar type or bundle layout, one particular optional-output combination, an operand that is an Eigen::Map, a long sequence of operations, a particular thread interleaving, two cooperating edits that each look harmless ...) — NOT something that ordinary use or the existing tests would expose at once. Prefer subtle numerical or structural slips over crude ones. The {n} mutants should differ in mechanism and in the part of the code they touch.
4. you provide a DEMONSTRATION: a small stand-alone C++ program (or gtest-free test) `demo.cpp` that exits 0 on the unmodified worktree and non-zero (or prints a clearly different result) with the mutant applied, showing the violation of the property with concrete inputs.

## How to check compile + existing tests
Configure once:  cmake -G Ninja -S {wt} -B {wt}/_build -DCMAKE_BUILD_TYPE=RelWithDebInfo -DBUILD_TESTING=ON -DCMAKE_CXX_FLAGS=-Wno-error -DFETCHCONTENT_SOURCE_DIR_GTEST=/usr/src/googletest -DFETCHCONTENT_FULLY_DISCONNECTED=ON
The full suite takes a long time to build, and the machine is shared: build with at most 4 jobs (`ninja -C {wt}/_build -j4 <targets>`). It is acceptable to build and run only the test executables that exercise the code you changed (list targets with `ninja -C {wt}/_build -t targets all | grep gtest`; e.g. gtest_se3, gtest_so3, gtest_se2, gtest_so2, gtest_se_2_3, gtest_sgal3, gtest_rn, gtest_bundle*, gtest_misc ...; run them with `ctest --test-dir {wt}/_build -R <regex>` or directly) — but then say exactly which ones you ran; the complete suite will be re-run on your patches later, and a mutant that fails any existing test is discarded, so be careful (the tests use a 1e-8 absolute tolerance at identity, at a point where all tangent coefficients are ~1e-8, and at one random point in [-1,1] / ball(pi), with Jacobians linearised with step 1e-4; they run with -DNDEBUG; float and double; Eigen::Map variants of the same points).
Compile demos with: g++ -std=c++11 -I{wt}/include -I{wt}/external/tl -I/usr/include/eigen3 demo.cpp -o demo

## Deliverables (write them under {out}/, one sub-directory per mutant: {out}/1, {out}/2, ...)
- `patch.diff`  : output of `git -C {wt} diff` for that mutant alone (relative to the unmodified worktree HEAD; make sure it applies with `git apply` on a clean tree);
- `demo.cpp`    : the demonstration program (self-contained, prints what it observes, exit status 0 = property holds / non-zero = violated);
- `README.md`   : which part of the property statement is violated, for which inputs, what is needed for the violation to manifest, why the existing tests do not notice, and exactly which test executables you built and ran (with their pass/fail result) with the mutant applied.
Leave the worktree clean (git checkout -- . ) at the end, and remove your `_build` directory when you are finished to save disk space. Your final message should list the mutants with one line each.""")
