#!/usr/bin/env python3-vt
import json, jsonschema, glob, sys
m=json.load(open('/verif/MANIFEST.json')); s=json.load(open('/root/.vp/MANIFEST.schema.json')); jsonschema.validate(m,s); print('manifest ok', len(m['checks']), 'checks')
es=json.load(open('/root/.vp/EVIDENCE.schema.json'))
for f in sorted(glob.glob('/verif/evidence/*.json')):
    try:
        jsonschema.validate(json.load(open(f)), es); print('ok', f)
    except Exception as e:
        print('BAD', f, str(e)[:300])
ids=[json.loads(l)['id'] for l in open('/verif/properties.jsonl')]
claimed={c['property_id'] for c in m['checks']}; na={c['property_id'] for c in m.get('not_applicable',[])}
print('unclaimed and not in not_applicable:', [i for i in ids if i not in claimed and i not in na])
