"""Driver logic for ./check (see /verif/DESIGN.md section 1.5/1.6)."""
import sys, os, json, hashlib, subprocess, time, shutil, argparse, glob, importlib
import concurrent.futures as cf

CFG = {
    'SO2d': 1, 'SE2d': 2, 'SO3d': 3, 'SE3d': 4, 'SE_2_3d': 5, 'SGal3d': 6, 'R1d': 7, 'R3d': 8, 'R7d': 9,
    'SO2f': 11, 'SE2f': 12, 'SO3f': 13, 'SE3f': 14, 'SE_2_3f': 15, 'SGal3f': 16, 'R3f': 18,
    'B_SE3_SO2_R3_d': 21, 'B_SGal3_SE2_SE23_SO3_R1_d': 22, 'B_R2_SO3_SO3_SE2_d': 23, 'B_SE23_SGal3_d': 24,
    'B_SO2_d': 25, 'B_R9_d': 26, 'B_SE2x3_d': 27, 'B_SO2_SGal3_SO2_d': 28, 'B_7elems_d': 29,
    'B_SE3_SO2_R3_f': 31,
    'SO2r': 41, 'SE2r': 42, 'SO3r': 43, 'SE3r': 44, 'SE_2_3r': 45, 'SGal3r': 46, 'R3r': 47, 'B_SE3_SO2_R3_SE2_SE23_r': 48, 'B_SGal3_SO3_r': 49,
    'SO2j': 61, 'SE2j': 62, 'SO3j': 63, 'SE3j': 64, 'SE_2_3j': 65, 'SGal3j': 66, 'R3j': 67, 'B_SE3_SO2_R3_j': 68,
}

CXX = os.environ.get('VF_CXX', 'g++')
BASE_FLAGS = ['-std=gnu++17', '-O1', '-ffp-contract=off', '-w']
ENGINE_SRCS = ['vf_ref.cpp', 'vf_gen.cpp', 'vf_json.cpp', 'vf_main.cpp']
FUZZ_ENGINE_SRCS = ['vf_ref.cpp', 'vf_gen.cpp', 'vf_json.cpp']   # + vf_fuzz_main.cpp compiled with the target
NCPU = int(os.environ.get('VF_JOBS', os.cpu_count() or 4))


def sh(cmd, **kw):
    return subprocess.run(cmd, stdout=subprocess.PIPE, stderr=subprocess.STDOUT, text=True, **kw)


def file_hash(paths, extra=''):
    h = hashlib.sha256()
    h.update(extra.encode())
    for p in sorted(paths):
        h.update(p.encode())
        try:
            with open(p, 'rb') as f:
                h.update(f.read())
        except OSError:
            h.update(b'<missing>')
    return h.hexdigest()[:16]


def tree_files(root, exts=None):
    out = []
    for d, _, fs in os.walk(root):
        for f in fs:
            if exts is None or os.path.splitext(f)[1] in exts:
                out.append(os.path.join(d, f))
    return out


class Ctx:
    def __init__(self, root):
        self.root = root
        self.repo = os.environ.get('VERIF_REPO', '/repo')
        self.seed = int(os.environ.get('VERIF_SEED', '1') or '1')
        if self.seed == 0:
            self.seed = 1
        self.build_root = os.path.join(root, 'build')
        self.engine_dir = os.path.join(root, 'engine')
        self.inc = ['-I/usr/include/eigen3', '-I' + os.path.join(self.repo, 'include'),
                    '-I' + os.path.join(self.repo, 'external', 'tl'), '-I' + self.engine_dir]
        self.known = load_known(root)
        self.log = []

    def say(self, *a):
        print(*a, flush=True)

    def derive_seed(self, *parts):
        h = hashlib.sha256(('%d|' % self.seed + '|'.join(str(p) for p in parts)).encode()).digest()
        v = int.from_bytes(h[:7], 'big')
        return v or 1

    # ---- engine library (independent of the repository under test)
    def engine_lib(self, extra_flags=(), cxx=None, src_names=None):
        """extra_flags: ABI-relevant flags of the harness (sanitizers change Eigen's aligned allocator, so the
        engine must be built with the same ones)"""
        cxx = cxx or CXX
        extra_flags = [f for f in extra_flags if f.startswith('-fsanitize') or f.startswith('-fno-sanitize')]
        extra_flags = [f.replace('fuzzer,', '').replace(',fuzzer', '') for f in extra_flags]   # the engine itself is not a fuzz target
        srcs = [os.path.join(self.engine_dir, s) for s in (src_names or ENGINE_SRCS)]
        hdrs = glob.glob(os.path.join(self.engine_dir, '*.h'))
        hh = file_hash(srcs + hdrs, cxx + ' '.join(BASE_FLAGS + extra_flags))
        d = os.path.join(self.build_root, 'engine-' + hh)
        lib = os.path.join(d, 'libvf.a')
        if os.path.exists(lib):
            return lib
        os.makedirs(d, exist_ok=True)
        objs = []
        with cf.ThreadPoolExecutor(max_workers=NCPU) as ex:
            futs = []
            for s in srcs:
                o = os.path.join(d, os.path.basename(s)[:-4] + '.o')
                objs.append(o)
                cmd = [cxx] + BASE_FLAGS + extra_flags + ['-I/usr/include/eigen3', '-I' + self.engine_dir, '-c', s, '-o', o]
                futs.append((s, ex.submit(sh, cmd)))
            for s, f in futs:
                r = f.result()
                if r.returncode != 0:
                    sys.stderr.write(r.stdout)
                    raise SystemExit('engine build failed: ' + s)
        tmp = lib + '.tmp%d' % os.getpid()
        r = sh(['ar', 'rcs', tmp] + objs)
        if r.returncode != 0:
            raise SystemExit('ar failed: ' + r.stdout)
        os.replace(tmp, lib)
        return lib

    def repo_hash(self):
        return file_hash(tree_files(os.path.join(self.repo, 'include')) +
                         tree_files(os.path.join(self.repo, 'external', 'tl')))

    def harness_dir(self, src_paths, flags):
        hh = file_hash(src_paths + glob.glob(os.path.join(self.engine_dir, '*.h')),
                       self.repo_hash() + CXX + ' '.join(flags))
        d = os.path.join(self.build_root, 'h-' + hh)
        os.makedirs(d, exist_ok=True)
        return d

    def prune_builds(self, keep=40):
        try:
            ds = [os.path.join(self.build_root, x) for x in os.listdir(self.build_root) if x.startswith('h-')]
            ds.sort(key=lambda p: os.path.getmtime(p))
            for p in ds[:-keep]:
                shutil.rmtree(p, ignore_errors=True)
        except OSError:
            pass


def load_known(root):
    p = os.path.join(root, 'KNOWN_FINDINGS.json')
    if not os.path.exists(p):
        return []
    with open(p) as f:
        return json.load(f).get('findings', [])


def build_rc_binaries(ctx, prop, stage):
    """returns {config: path or None}, compile_failures {config: log}"""
    src = os.path.join(ctx.root, 'props', stage['src'])
    defs = stage.get('defs', [])
    flags = BASE_FLAGS + defs
    lib = ctx.engine_lib(defs)
    d = ctx.harness_dir([src], flags + [lib])
    out, fails = {}, {}

    def one(cfg):
        exe = os.path.join(d, '%s_%s%s' % (os.path.basename(src)[:-4], cfg, stage.get('tag', '')))
        if os.path.exists(exe):
            os.utime(d, None)
            return cfg, exe, None
        cmd = [CXX] + flags + ctx.inc + ['-DVF_CFG=%d' % CFG[cfg], src, lib, '-lrapidcheck', '-lpthread', '-o', exe + '.tmp']
        r = sh(cmd)
        if r.returncode != 0:
            logp = exe + '.compile.log'
            with open(logp, 'w') as f:
                f.write(' '.join(cmd) + '\n' + r.stdout)
            return cfg, None, logp
        os.replace(exe + '.tmp', exe)
        return cfg, exe, None

    with cf.ThreadPoolExecutor(max_workers=NCPU) as ex:
        for cfg, exe, logp in ex.map(one, stage['configs']):
            out[cfg] = exe
            if logp:
                fails[cfg] = logp
    return out, fails


def replay_once(exe, path, known_ids=None, timeout=600):
    cmd = [exe, 'replay', path]
    if known_ids:
        cmd += ['--known', ','.join(known_ids)]
    try:
        r = sh(cmd, timeout=timeout)
    except subprocess.TimeoutExpired:
        return 2, 'timeout'
    return r.returncode, r.stdout.strip()


def confirm_violation(exe, path, known_ids):
    """three independent replays through the plain (engine-free) path; all must fail"""
    n_fail = 0
    last = ''
    for _ in range(3):
        rc, out = replay_once(exe, path, known_ids)
        last = out
        if rc == 1:
            n_fail += 1
    return n_fail == 3, last


def run_rc_stage(ctx, prop, stage, tier, res):
    t0 = time.time()
    os.environ.update(stage.get('env', {}))   # e.g. ASAN_OPTIONS for sanitizer builds (inherited by every child)
    bins, cfails = build_rc_binaries(ctx, prop, stage)
    res['build_s'] = res.get('build_s', 0) + time.time() - t0
    for cfg, logp in cfails.items():
        dst = os.path.join(ctx.root, 'replays', prop, 'compile-%s%s.log' % (cfg, stage.get('tag', '')))
        os.makedirs(os.path.dirname(dst), exist_ok=True)
        shutil.copy(logp, dst)
        res['violations'].append({'replay': dst, 'why': 'harness for %s does not compile (instantiation failure)' % cfg})
    known_ids = [k['id'] for k in ctx.known if k.get('status') == 'known' and prop in as_list(k.get('property'))]

    # --- replay tier: regressions must pass; known witnesses must still fail
    for path in sorted(glob.glob(os.path.join(ctx.root, 'replays', 'regress', prop, '*.json'))):
        try:
            cfg = json.load(open(path)).get('config')
        except Exception:
            continue
        if cfg not in bins or not bins[cfg] or stage.get('tag', '') != json.load(open(path)).get('tag', stage.get('tag', '')):
            continue
        rc, out = replay_once(bins[cfg], path, known_ids)
        res['replayed'] += 1
        if rc == 1:
            ok, last = confirm_violation(bins[cfg], path, known_ids)
            if ok:
                res['violations'].append({'replay': path, 'why': 'regression replay fails: ' + last})
    for k in ctx.known:
        if k.get('status') != 'known' or prop not in as_list(k.get('property')):
            continue
        w = os.path.join(ctx.root, k['witness'])
        try:
            cfg = json.load(open(w)).get('config')
        except Exception:
            continue
        if cfg not in bins or not bins[cfg]:
            continue
        if k.get('stage_tag', '') != stage.get('tag', ''):
            continue
        rc, out = replay_once(bins[cfg], w, [x for x in known_ids if x != k['id']])
        if rc == 1:
            res['known_lines'].append('KNOWN-FINDING: property=%s %s [%s] witness=%s' % (prop, k['text'], k['id'], k['witness']))
        else:
            res['notes'].append('known finding %s no longer reproduces from its witness (rc=%d)' % (k['id'], rc))

    # --- generated search
    ncases = stage['cases'][tier]
    shards = stage.get('shards', {}).get(tier, 1)
    jobs = []
    for cfg in stage['configs']:
        if not bins.get(cfg):
            continue
        for sidx in range(shards):
            seed = ctx.derive_seed(prop, stage.get('tag', ''), cfg, sidx)
            jobs.append((cfg, sidx, seed))
    fragdir = os.path.join(ctx.build_root, 'frag-%s-%d' % (prop, os.getpid()))
    os.makedirs(fragdir, exist_ok=True)
    max_size = stage.get('max_size', 100)

    def run_job(job):
        cfg, sidx, seed = job
        frag = os.path.join(fragdir, '%s%s-%d.json' % (cfg, stage.get('tag', ''), sidx))
        rep = os.path.join(ctx.root, 'replays', prop, '%s%s-seed%d.json' % (cfg, stage.get('tag', ''), seed))
        os.makedirs(os.path.dirname(rep), exist_ok=True)
        if os.path.exists(rep):
            os.remove(rep)
        env = dict(os.environ)
        n = max(50, int(ncases * stage.get('case_scale', {}).get(cfg, 1.0)))
        env['RC_PARAMS'] = 'seed=%d max_success=%d max_size=%d' % (seed, n, max_size)
        cmd = [bins[cfg], 'run', '--frag', frag, '--replay-out', rep]
        if stage.get('shrink_budget'):
            cmd += ['--shrink-budget', str(stage['shrink_budget'])]
        if known_ids:
            cmd += ['--known', ','.join(known_ids)]
        if tier == 'thorough':
            cmd += ['--thorough']
        try:
            r = subprocess.run(cmd, stdout=subprocess.PIPE, stderr=subprocess.STDOUT, text=True, env=env,
                               timeout=stage.get('timeout', {}).get(tier, 1200 if tier == 'quick' else 3600))
            rc, out = r.returncode, r.stdout
        except subprocess.TimeoutExpired:
            rc, out = 124, 'timeout'
        return job, rc, out, frag, rep

    with cf.ThreadPoolExecutor(max_workers=NCPU) as ex:
        for job, rc, out, frag, rep in ex.map(run_job, jobs):
            cfg, sidx, seed = job
            fr = None
            if os.path.exists(frag):
                try:
                    fr = json.load(open(frag))
                except Exception:
                    fr = None
            if fr:
                fr['seed'] = seed
                fr['tag'] = stage.get('tag', '')
                res['frags'].append(fr)
            if rc == 0:
                continue
            if rc == 124:
                res['notes'].append('%s shard %d timed out (inconclusive)' % (cfg, sidx))
                continue
            if rc == 1 and os.path.exists(rep):
                # tag the replay with the stage so it is replayed by the right binary
                try:
                    j = json.load(open(rep)); j['tag'] = stage.get('tag', ''); json.dump(j, open(rep, 'w'))
                except Exception:
                    pass
                ok, last = confirm_violation(bins[cfg], rep, known_ids)
                if ok:
                    res['violations'].append({'replay': rep, 'why': last})
                else:
                    res['notes'].append('%s: failure did not reproduce 3x from %s (treated as inconclusive): %s' % (cfg, rep, last))
            else:
                # crash / abort of the harness itself
                crash = os.path.join(ctx.root, 'replays', prop, '%s%s-seed%d.crash.log' % (cfg, stage.get('tag', ''), seed))
                with open(crash, 'w') as f:
                    f.write('rc=%d\nRC_PARAMS=seed=%d max_success=%d max_size=%d\n%s\n[...]\n%s' % (rc, seed, ncases, max_size, out[:3000], out[-3000:]))
                res['violations'].append({'replay': crash, 'why': 'harness process died with status %d' % rc})
    shutil.rmtree(fragdir, ignore_errors=True)


def run_fuzz_stage(ctx, prop, stage, tier, res):
    """libFuzzer campaign over the byte-decoded generators; same run_case() as the rapidcheck stage"""
    cxx = 'clang++'
    if shutil.which(cxx) is None:
        res['notes'].append('clang++ not available: fuzz stage skipped')
        return
    san = ['-fsanitize=fuzzer,address,undefined', '-fno-sanitize-recover=undefined', '-fno-omit-frame-pointer']
    flags = ['-std=gnu++17', '-O1', '-g', '-ffp-contract=off', '-w'] + stage.get('defs', []) + san
    src = os.path.join(ctx.root, 'props', stage['src'])
    fmain = os.path.join(ctx.engine_dir, 'vf_fuzz_main.cpp')
    t0 = time.time()
    lib = ctx.engine_lib(san, cxx=cxx, src_names=FUZZ_ENGINE_SRCS)
    d = ctx.harness_dir([src, fmain], flags + [lib, cxx])
    secs = stage['seconds'][tier]
    jobs_per = stage.get('jobs', 1)
    bins = {}

    def build(cfg):
        exe = os.path.join(d, 'fuzz_%s_%s%s' % (os.path.basename(src)[:-4], cfg, stage.get('tag', '')))
        if os.path.exists(exe):
            return cfg, exe, None
        cmd = [cxx] + flags + ctx.inc + ['-DVF_CFG=%d' % CFG[cfg], src, fmain, lib, '-o', exe + '.tmp']
        r = sh(cmd)
        if r.returncode != 0:
            logp = exe + '.compile.log'
            open(logp, 'w').write(' '.join(cmd) + '\n' + r.stdout)
            return cfg, None, logp
        os.replace(exe + '.tmp', exe)
        return cfg, exe, None

    with cf.ThreadPoolExecutor(max_workers=NCPU) as ex:
        for cfg, exe, logp in ex.map(build, stage['configs']):
            if exe:
                bins[cfg] = exe
            else:
                dst = os.path.join(ctx.root, 'replays', prop, 'compile-fuzz-%s.log' % cfg)
                os.makedirs(os.path.dirname(dst), exist_ok=True)
                shutil.copy(logp, dst)
                res['violations'].append({'replay': dst, 'why': 'fuzz target for %s does not compile' % cfg})
    res['build_s'] = res.get('build_s', 0) + time.time() - t0
    # the rapidcheck binary of the same configuration replays whatever the fuzzer finds (plain function call)
    rc_stage = dict(stage); rc_stage.pop('tag', None); rc_stage['defs'] = stage.get('defs', [])
    rc_bins, _ = build_rc_binaries(ctx, prop, {'src': stage['src'], 'configs': list(bins), 'defs': stage.get('defs', []), 'tag': stage.get('rc_tag', '')})

    def run(cfg):
        work = os.path.join(ctx.build_root, 'fuzz-%s-%s-%d' % (prop, cfg, os.getpid()))
        shutil.rmtree(work, ignore_errors=True)
        os.makedirs(os.path.join(work, 'corpus'))
        seed = ctx.derive_seed(prop, 'fuzz', cfg) % (2 ** 31 - 1) + 1
        rep = os.path.join(ctx.root, 'replays', prop, 'fuzz-%s-seed%d.json' % (cfg, seed))
        os.makedirs(os.path.dirname(rep), exist_ok=True)
        if os.path.exists(rep):
            os.remove(rep)
        stats = os.path.join(work, 'stats.json')
        env = dict(os.environ)
        env.update({'VF_FUZZ_REPLAY': rep, 'VF_FUZZ_STATS': stats,
                    'ASAN_OPTIONS': 'hard_rss_limit_mb=4000:detect_leaks=0:allocator_may_return_null=1:abort_on_error=0'})
        cmd = [bins[cfg], '-seed=%d' % seed, '-max_total_time=%d' % secs, '-max_len=%d' % stage.get('max_len', 4096), '-timeout=%d' % stage.get('unit_timeout', 120),
               '-rss_limit_mb=4000', '-print_final_stats=1', '-len_control=0', '-artifact_prefix=' + work + '/', '-jobs=%d' % jobs_per, '-workers=%d' % jobs_per, os.path.join(work, 'corpus')]
        try:
            r = subprocess.run(cmd, stdout=subprocess.PIPE, stderr=subprocess.STDOUT, text=True, env=env, cwd=work, timeout=secs * 3 + 600)
            rc, out = r.returncode, r.stdout
        except subprocess.TimeoutExpired:
            rc, out = 124, 'timeout'
        logs = ''
        for lf in glob.glob(os.path.join(work, 'fuzz-*.log')):
            logs += open(lf, errors='replace').read()
        out = out + logs
        st = None
        if os.path.exists(stats):
            try:
                st = json.load(open(stats))
            except Exception:
                st = None
        crashes = [f for f in glob.glob(os.path.join(work, 'crash-*')) + glob.glob(os.path.join(work, 'leak-*'))]
        kept = []
        for cfile in crashes[:3]:
            dst = os.path.join(ctx.root, 'replays', prop, 'fuzz-%s-%s' % (cfg, os.path.basename(cfile)))
            shutil.copy(cfile, dst)
            kept.append(dst)
        import re as _re
        m = _re.findall(r'stat::number_of_executed_units:\s*(\d+)', out)
        execs = sum(int(x) for x in m) if m else (st or {}).get('evaluations', 0)
        shutil.rmtree(work, ignore_errors=True)
        return cfg, rc, out, st, kept, rep, execs, seed

    with cf.ThreadPoolExecutor(max_workers=max(1, NCPU // max(1, jobs_per))) as ex:
        for cfg, rc, out, st, kept, rep, execs, seed in ex.map(run, list(bins)):
            fr = {'config': cfg, 'tag': '-fuzz', 'evaluations': int(execs), 'distinct_nontrivial': int((st or {}).get('distinct_nontrivial', 0)),
                  'oracle_inconclusive': int((st or {}).get('oracle_inconclusive', 0)), 'labels': {}, 'max_err_over_tol': {}, 'samples': [],
                  'seed': seed, 'rule': 'libFuzzer (coverage-guided) byte streams decoded by the stratified generators into the same Case type'}
            res['frags'].append(fr)
            if os.path.exists(rep) and rc_bins.get(cfg):
                ok, last = confirm_violation(rc_bins[cfg], rep, [])
                if ok:
                    res['violations'].append({'replay': rep, 'why': 'found by libFuzzer: ' + last})
                else:
                    res['notes'].append('fuzz %s: oracle failure did not reproduce through the replay path (%s)' % (cfg, last))
            elif kept:
                res['violations'].append({'replay': kept[0], 'why': 'libFuzzer crash (sanitizer / signal) without an oracle verdict: ' + out[-600:].replace('\n', ' | ')})
            elif rc not in (0, 124):
                res['notes'].append('fuzz %s: exit status %d without artefact (treated as inconclusive)' % (cfg, rc))


def as_list(x):
    if x is None:
        return []
    return x if isinstance(x, list) else [x]


def merge_evidence(ctx, prop, tier, pdef, res, wall):
    ev_dir = os.environ.get('VF_EVIDENCE_DIR') or os.path.join(ctx.root, 'evidence')
    os.makedirs(ev_dir, exist_ok=True)
    evaluations = sum(f.get('evaluations', 0) for f in res['frags'])
    nontriv = sum(f.get('distinct_nontrivial', 0) for f in res['frags'])
    labels, margins, per_cfg, known_hits, margins_cfg = {}, {}, {}, {}, {}
    samples = []
    for f in res['frags']:
        for k, v in f.get('labels', {}).items():
            labels[k] = labels.get(k, 0) + v
        for k, v in f.get('max_err_over_tol', {}).items():
            try:
                v = float(v)
            except Exception:
                v = float('inf')
            key = k
            margins[key] = max(margins.get(key, 0), v)
            pc = margins_cfg.setdefault(f.get('config', '?') + f.get('tag', ''), {})
            pc[k] = max(pc.get(k, 0), v)
        for k, v in f.get('known_hits', {}).items():
            known_hits[k] = known_hits.get(k, 0) + v
        c = per_cfg.setdefault(f.get('config', '?') + f.get('tag', ''), {'evaluations': 0, 'distinct_nontrivial': 0})
        c['evaluations'] += f.get('evaluations', 0)
        c['distinct_nontrivial'] += f.get('distinct_nontrivial', 0)
        if len(samples) < 10:
            samples.extend(f.get('samples', [])[:1])
    if not samples:
        for f in res['frags']:
            samples.extend(f.get('samples', [])[:2])
    samples.extend(res.get('extra_samples', []))
    cov = {
        'evaluations': int(evaluations + res.get('extra_evaluations', 0)),
        'distinct_nontrivial': int(nontriv + res.get('extra_nontrivial', 0)),
        'rule': pdef.get('rule', '') or (res['frags'][0].get('rule', '') if res['frags'] else ''),
        'samples': samples[:12] if samples else ['(no case generated)'],
        'per_config': per_cfg,
        'strata_histogram': labels,
        'max_err_over_tol': margins,
        'max_err_over_tol_per_config': margins_cfg,
        'excluded_known': int(sum(f.get('excluded_known', 0) for f in res['frags'])),
        'known_hits': known_hits,
        'oracle_inconclusive': int(sum(f.get('oracle_inconclusive', 0) for f in res['frags'])),
        'confirmed_in_50_digits': int(sum(f.get('confirmed_in_50_digits', 0) for f in res['frags'])),
        'regression_replays': res['replayed'],
        'build_s': round(res.get('build_s', 0), 1),
        'notes': res['notes'],
        'known_findings_reported': res['known_lines'],
        'violations_detail': res['violations'],
        'exhaustive': bool(res.get('exhaustive', False)),
    }
    cov.update(res.get('extra_cov', {}))
    ev = {
        'property_id': prop,
        'tier': tier,
        'seed': ctx.seed,
        'level': 'exploration',
        'coverage': cov,
        'assumptions': pdef.get('assumptions', []),
        'wall_s': round(wall, 2),
        'violations': len(res['violations']),
    }
    tmp = os.path.join(ev_dir, prop + '.json.tmp%d' % os.getpid())
    with open(tmp, 'w') as f:
        json.dump(ev, f, indent=1)
    os.replace(tmp, os.path.join(ev_dir, prop + '.json'))
    return ev


def main(root, argv):
    ap = argparse.ArgumentParser()
    ap.add_argument('prop', nargs='?')
    ap.add_argument('--tier', default=os.environ.get('VERIF_TIER', 'quick'))
    ap.add_argument('--replay')
    ap.add_argument('--configs')
    ap.add_argument('--build-engine', action='store_true')
    ap.add_argument('--cases', type=int)
    ap.add_argument('--only-kind')
    ap.add_argument('--seconds', type=int)
    a = ap.parse_args(argv)
    ctx = Ctx(root)
    if a.build_engine:
        ctx.engine_lib()
        return 0
    if a.tier not in ('quick', 'thorough'):
        a.tier = 'quick'
    import props
    importlib.reload(props)
    if a.prop not in props.PROPS:
        sys.stderr.write('unknown property %r\n' % a.prop)
        return 2
    pdef = props.PROPS[a.prop]
    t0 = time.time()

    if a.replay:
        return do_replay(ctx, a.prop, pdef, a.replay)

    res = {'frags': [], 'violations': [], 'known_lines': [], 'notes': [], 'replayed': 0}
    for stage in pdef['stages']:
        stage = dict(stage)
        if a.tier not in stage.get('tiers', ['quick', 'thorough']):
            continue
        if a.configs and 'configs' in stage:
            stage['configs'] = [c for c in stage['configs'] if c in a.configs.split(',')]
        elif isinstance(stage.get('configs'), dict):
            stage['configs'] = stage['configs'][a.tier]
        if a.cases and 'cases' in stage:
            stage['cases'] = {a.tier: a.cases}
        kind = stage.get('kind', 'rc')
        if a.only_kind and kind != a.only_kind:
            continue
        if a.seconds and 'seconds' in stage:
            stage['seconds'] = {a.tier: a.seconds}
        if kind == 'rc':
            run_rc_stage(ctx, a.prop, stage, a.tier, res)
        elif kind == 'fuzz':
            run_fuzz_stage(ctx, a.prop, stage, a.tier, res)
        else:
            mod = importlib.import_module(stage['module'])
            getattr(mod, stage['fn'])(ctx, a.prop, stage, a.tier, res)
    wall = time.time() - t0
    ev = merge_evidence(ctx, a.prop, a.tier, pdef, res, wall)
    ctx.prune_builds()
    for l in res['known_lines']:
        print(l)
    for n in res['notes']:
        print('note:', n)
    print('%s tier=%s seed=%d evaluations=%d distinct_nontrivial=%d wall=%.1fs violations=%d' % (
        a.prop, a.tier, ctx.seed, ev['coverage']['evaluations'], ev['coverage']['distinct_nontrivial'], wall, len(res['violations'])))
    if res['violations']:
        seen = set()
        for v in res['violations']:
            if v['replay'] in seen:
                continue
            seen.add(v['replay'])
            print('VIOLATION property=%s replay=%s' % (a.prop, v['replay']))
            print('  ' + v['why'][:400])
        return 1
    return 0


def do_replay(ctx, prop, pdef, path):
    path = os.path.abspath(path)
    if path.endswith('.log'):
        print(open(path).read()[-3000:])
        print('(compile / crash log: rebuild with ./check %s to see whether it still fails)' % prop)
        return 1
    customs = [st for st in pdef['stages'] if st.get('kind', 'rc') not in ('rc', 'fuzz')]
    try:
        j = json.load(open(path))
    except Exception:
        j = None
    if j is None or (customs and 'config' not in j and j.get('stage') not in [st.get('name') for st in customs]):
        # not one of the rapidcheck replay files: hand it to the custom stage(s) of the property
        for st in customs:
            mod = importlib.import_module(st['module'])
            fn = getattr(mod, st.get('replay_fn', 'replay'), None)
            if fn:
                return fn(ctx, prop, st, path)
        sys.stderr.write('cannot interpret replay file\n')
        return 2
    cfg, tag = j.get('config'), j.get('tag', '')
    # replay files written by the libFuzzer stages carry no stage tag: any rapidcheck stage with that configuration replays them
    def tag_matches():
        for stage in pdef['stages']:
            if stage.get('kind', 'rc') == 'rc':
                cfgs = stage['configs']
                if isinstance(cfgs, dict):
                    cfgs = sorted(set(cfgs['quick']) | set(cfgs['thorough']))
                if stage.get('tag', '') == tag and cfg in cfgs:
                    return True
        return False
    any_tag = not tag_matches()
    for stage in pdef['stages']:
        kind = stage.get('kind', 'rc')
        if kind == 'fuzz':
            continue
        if kind != 'rc':
            mod = importlib.import_module(stage['module'])
            fn = getattr(mod, stage.get('replay_fn', 'replay'), None)
            if fn and j.get('stage') == stage.get('name'):
                return fn(ctx, prop, stage, path)
            continue
        cfgs = stage['configs']
        if isinstance(cfgs, dict):
            cfgs = sorted(set(cfgs['quick']) | set(cfgs['thorough']))
        if cfg not in cfgs or (stage.get('tag', '') != tag and not any_tag):
            continue
        st = dict(stage); st['configs'] = [cfg]
        os.environ.update(stage.get('env', {}))
        bins, fails = build_rc_binaries(ctx, prop, st)
        if not bins.get(cfg):
            print(open(fails[cfg]).read()[-3000:])
            return 1
        known_ids = [k['id'] for k in ctx.known if k.get('status') == 'known' and prop in as_list(k.get('property'))]
        rc, out = replay_once(bins[cfg], path, known_ids)
        print(out)
        if rc == 1:
            print('VIOLATION property=%s replay=%s' % (prop, path))
        return 1 if rc == 1 else 0
    sys.stderr.write('no stage matches replay file\n')
    return 2
