#!/usr/bin/env python3
"""second-round prompt: same as round one plus the list of changes already tried for that property"""
import json, sys, os, subprocess
pid = sys.argv[1]; wt = sys.argv[2]; out = sys.argv[3]; n = sys.argv[4] if len(sys.argv) > 4 else '3'
base = subprocess.run([sys.executable, '/verif/lib/mutant_prompt.py', pid, wt, out, n], stdout=subprocess.PIPE, text=True).stdout
tried = []
for d in sorted(os.listdir('/verif/seeded')):
    mp = os.path.join('/verif/seeded', d, 'meta.json')
    if os.path.exists(mp):
        m = json.load(open(mp))
        if m['property'] == pid and m.get('summary'):
            tried.append('- %s (needs: %s)' % (m['summary'], m.get('needs', '')))
extra = """

## Second round
Other engineers already produced the following changes for this property; do NOT repeat them or close variants of them (same function + same kind of slip). Look for mechanisms and regions they did not touch:
%s
Ideas that were under-explored so far (take what fits this property, or better ideas of your own): single-precision-only effects; bundle-only or one-bundle-layout-only effects; effects that need an Eigen::Map / Map<const> operand or a block-bound output; one particular optional-output combination; behaviour that differs only with -DNDEBUG (or only without it); values that are right but Jacobians wrong (or the reverse) in a narrow band; errors proportional to a large translation/velocity/time coordinate that vanish for coordinates of order one; rotation angles near pi or near 2 pi rather than near zero; quaternions with w<0; two cooperating edits in different files; a wrong constant that only matters beyond some size; state that leaks between calls only for one group.
""" % '\n'.join(tried)
print(base.replace('## Your task', extra + '\n## Your task'))
