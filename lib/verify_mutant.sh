#!/bin/sh
# verify_mutant.sh <seeded-id> : confirms in a scratch worktree that the seeded change (a) applies and compiles with the
# repository's whole test-suite, (b) the suite still passes, (c) the demonstration passes without and fails with the change.
# Writes /verif/seeded/<id>/verify.json and removes the worktree.
ID=$1; D=/verif/seeded/$ID; J=${JOBS:-6}
WT=$(mktemp -d /tmp/vm-XXXXXX)
git -C /repo worktree add --detach -f "$WT" HEAD >/dev/null 2>&1 || { echo "worktree failed"; exit 2; }
APPLY=ok; git -C "$WT" apply "$D/patch.diff" 2>"$WT/apply.err" || APPLY=failed
cmake -G Ninja -S "$WT" -B "$WT/_build" -DCMAKE_BUILD_TYPE=RelWithDebInfo -DBUILD_TESTING=ON -DCMAKE_CXX_FLAGS=-Wno-error -DFETCHCONTENT_SOURCE_DIR_GTEST=/usr/src/googletest -DFETCHCONTENT_FULLY_DISCONNECTED=ON >"$WT/cfg.log" 2>&1
nice -n 10 cmake --build "$WT/_build" -j $J >"$WT/build.log" 2>&1; BRC=$?
ctest --test-dir "$WT/_build" -j8 --timeout 900 >"$WT/ctest.log" 2>&1; CRC=$?
SUMMARY=$(grep -E "tests passed|tests failed" "$WT/ctest.log" | tail -1)
FAILED=$(grep -E "\(Failed\)|\(Not Run\)|Not Run|Subprocess" "$WT/ctest.log" | tr '\n' ';' | cut -c1-300)
BUILDERR=$(grep -E "error|Killed|fatal" "$WT/build.log" | head -3 | tr '\n' ';' | cut -c1-300)
# run the suite two more times (the tests seed their random points from the clock)
ctest --test-dir "$WT/_build" -j8 --timeout 900 >"$WT/ctest2.log" 2>&1; CRC2=$?
ctest --test-dir "$WT/_build" -j8 --timeout 900 >"$WT/ctest3.log" 2>&1; CRC3=$?
DEMO_CLEAN=na; DEMO_MUT=na
if [ -f "$D/demo.cpp" ]; then
  g++ -std=c++11 -O1 -pthread -I/repo/include -I/repo/external/tl -I/usr/include/eigen3 "$D/demo.cpp" -o "$WT/demo_clean" >"$WT/demo_clean.log" 2>&1 && { timeout 600 "$WT/demo_clean" >"$WT/demo_clean.out" 2>&1; DEMO_CLEAN=$?; } || DEMO_CLEAN=compile-failed
  g++ -std=c++11 -O1 -pthread -I"$WT/include" -I"$WT/external/tl" -I/usr/include/eigen3 "$D/demo.cpp" -o "$WT/demo_mut" >"$WT/demo_mut.log" 2>&1 && { timeout 600 "$WT/demo_mut" >"$WT/demo_mut.out" 2>&1; DEMO_MUT=$?; } || DEMO_MUT=compile-failed
fi
export FAILED BUILDERR
python3 - "$D" "$APPLY" "$BRC" "$CRC" "$CRC2" "$CRC3" "$SUMMARY" "$DEMO_CLEAN" "$DEMO_MUT" "$WT" <<'PY'
import sys, json, os, subprocess
d, apply_, brc, c1, c2, c3, summ, dc, dm, wt = sys.argv[1:11]
tail = lambda p: open(p, errors='replace').read()[-600:] if os.path.exists(p) else ''
v = {'patch_applies': apply_ == 'ok', 'suite_build_rc': int(brc), 'ctest_rc': [int(c1), int(c2), int(c3)], 'ctest_summary': summ,
     'demo_exit_clean_tree': dc, 'demo_exit_with_change': dm, 'failed_tests': os.environ.get('FAILED', ''), 'build_errors': os.environ.get('BUILDERR', ''),
     'repo_head': subprocess.run(['git', '-C', '/repo', 'rev-parse', '--short', 'HEAD'], stdout=subprocess.PIPE, text=True).stdout.strip(),
     'demo_output_with_change_tail': tail(os.path.join(wt, 'demo_mut.out'))[-400:]}
v['confirmed'] = v['patch_applies'] and v['suite_build_rc'] == 0 and v['ctest_rc'] == [0, 0, 0] and str(dc) == '0' and str(dm) not in ('0', 'na', 'compile-failed')
json.dump(v, open(os.path.join(d, 'verify.json'), 'w'), indent=1)
print(os.path.basename(d), 'confirmed' if v['confirmed'] else 'NOT CONFIRMED', v['ctest_summary'], 'demo', dc, dm)
PY
git -C /repo worktree remove --force "$WT" >/dev/null 2>&1; rm -rf "$WT"
