#!/usr/bin/env python3
"""renders seeded/DETECTION.json (+ verify.json, README first lines) as the markdown table of DESIGN.md section 8.3"""
import json, os, re, sys
ROOT = os.path.dirname(os.path.dirname(os.path.abspath(__file__)))
det = json.load(open(os.path.join(ROOT, 'seeded', 'DETECTION.json')))
rows = []
for r in det:
    md = os.path.join(ROOT, 'seeded', r['id'])
    meta = json.load(open(os.path.join(md, 'meta.json')))
    ver = json.load(open(os.path.join(md, 'verify.json'))) if os.path.exists(os.path.join(md, 'verify.json')) else {}
    res = r.get('results', {})
    caught = sorted({k.split('/')[0] for k, v in res.items() if v['detected']})
    missed = sorted({k.split('/')[0] for k, v in res.items() if not v['detected']} - set(caught))
    what = meta.get('summary', '')
    rows.append('| %s | %s | %s | %s | %s | %s |' % (r['id'], r['property'], what.replace('|', '/'), ', '.join(caught) or '—', ', '.join(missed) or '—',
                                                'yes' if ver.get('confirmed') else ('no: ' + str(ver.get('ctest_summary', 'not verified'))[:40])))
print('| seeded change | property | what it does / what it needs | caught by (quick tier) | not caught by | suite passes + demo confirmed |')
print('|---|---|---|---|---|---|')
print('\n'.join(rows))
