#!/usr/bin/env python3
"""renders seeded/DETECTION.json (+ verify.json, README first lines) as the markdown table of DESIGN.md section 8.3"""
import json, os, re, sys
ROOT = os.path.dirname(os.path.dirname(os.path.abspath(__file__)))
det = json.load(open(os.path.join(ROOT, 'seeded', 'DETECTION.json')))
rows = []
for r in det:
    md = os.path.join(ROOT, 'seeded', r['id'])
    meta = json.load(open(os.path.join(md, 'meta.json')))
    ver = json.load(open(os.path.join(md, 'verify.json'))) if os.path.exists(os.path.join(md, 'verify.json')) else {}
    res = r.get('results', {})
    per = {}
    for k, v in res.items():
        chk = k.split('/')[0]
        per.setdefault(chk, [0, 0])
        per[chk][1] += 1
        per[chk][0] += 1 if v['detected'] else 0
    caught = ['%s (%d/%d seeds)' % (c, a, b) if b > 1 else c for c, (a, b) in sorted(per.items()) if a > 0]
    missed = [c for c, (a, b) in sorted(per.items()) if a == 0]
    what = meta.get('summary', '') + (' — needs: ' + meta['needs'] if meta.get('needs') else '')
    rows.append('| %s | %s | %s | %s | %s | %s |' % (r['id'], r['property'], what.replace('|', '/'), ', '.join(caught) or '—', ', '.join(missed) or '—',
                                                ('yes (subset of the suite, 3x)' if 'suite_scope' in ver else 'yes') if ver.get('confirmed') else ('no: ' + str(ver.get('ctest_summary', 'not verified'))[:40])))
print('| seeded change | property | what it does — what it needs to show | caught by (quick tier; seeds 1 and 5 where two are given) | listed check that stays silent | repository suite passes 3x + demonstration confirmed |')
print('|---|---|---|---|---|---|')
print('\n'.join(rows))
