#!/bin/sh
# verify_mutant_light.sh <seeded-id> : time-boxed variant of verify_mutant.sh used for the third round: builds and runs (3x) only the
# repository test executables that include the touched headers' groups (never gtest_rn: 10 GB to compile), plus the demonstration on
# the clean and the changed tree.  verify.json records the scope honestly ("suite_scope").
ID=$1; D=/verif/seeded/$ID; J=${JOBS:-4}
WT=$(mktemp -d /tmp/vm-XXXXXX)
git -C /repo worktree add --detach -f "$WT" HEAD >/dev/null 2>&1 || { echo "worktree failed"; exit 2; }
APPLY=ok; git -C "$WT" apply "$D/patch.diff" 2>"$WT/apply.err" || APPLY=failed
F=$(grep '^+++ ' "$D/patch.diff")
T=""
case "$F" in *impl/so3/*|*impl/se3/*) T="$T gtest_so3 gtest_se3 gtest_se_2_3 gtest_sgal3 gtest_bundle";; esac
case "$F" in *impl/se2/*) T="$T gtest_se2 gtest_bundle";; esac
case "$F" in *impl/so2/*) T="$T gtest_so2 gtest_se2 gtest_bundle";; esac
case "$F" in *impl/sgal3/*) T="$T gtest_sgal3";; esac
case "$F" in *impl/se_2_3/*) T="$T gtest_se_2_3";; esac
case "$F" in *impl/bundle/*) T="$T gtest_bundle gtest_bundle_single_group";; esac
case "$F" in *utils.h*|*macro.h*|*lie_group_base*|*tangent_base*|*algorithms*|*functions.h*) T="$T gtest_so2 gtest_se2 gtest_so3 gtest_se3 gtest_se_2_3 gtest_sgal3 gtest_bundle";; esac
T=$(echo $T | tr ' ' '\n' | sort -u | tr '\n' ' ')
cmake -G Ninja -S "$WT" -B "$WT/_build" -DCMAKE_BUILD_TYPE=RelWithDebInfo -DBUILD_TESTING=ON -DCMAKE_CXX_FLAGS=-Wno-error -DFETCHCONTENT_SOURCE_DIR_GTEST=/usr/src/googletest -DFETCHCONTENT_FULLY_DISCONNECTED=ON >"$WT/cfg.log" 2>&1
nice -n 10 ninja -C "$WT/_build" -j $J $T >"$WT/build.log" 2>&1; BRC=$?
RCS=""; SUMMARY=""
for k in 1 2 3; do
  rc=0; n=0
  for t in $T; do
    exe=$(find "$WT/_build" -type f -name "$t" -perm -u+x | head -1)
    [ -n "$exe" ] || { rc=9; continue; }
    "$exe" >"$WT/$t.$k.log" 2>&1 || rc=1
    n=$((n + $(grep -E '^\[  PASSED  \]' "$WT/$t.$k.log" | grep -oE '[0-9]+' | head -1 || echo 0)))
  done
  RCS="$RCS $rc"; SUMMARY="$n tests passed in run $k"
done
FAILED=$(grep -lE '^\[  FAILED  \]' "$WT"/*.log 2>/dev/null | xargs -r -n1 basename | tr '\n' ';' | cut -c1-300)
BUILDERR=$(grep -E "error|Killed|fatal" "$WT/build.log" | head -3 | tr '\n' ';' | cut -c1-300)
DEMO_CLEAN=na; DEMO_MUT=na
if [ -f "$D/demo.cpp" ]; then
  g++ -std=c++11 -O1 -pthread -I/repo/include -I/repo/external/tl -I/usr/include/eigen3 "$D/demo.cpp" -o "$WT/demo_clean" >"$WT/demo_clean.log" 2>&1 && { timeout 600 "$WT/demo_clean" >"$WT/demo_clean.out" 2>&1; DEMO_CLEAN=$?; } || DEMO_CLEAN=compile-failed
  g++ -std=c++11 -O1 -pthread -I"$WT/include" -I"$WT/external/tl" -I/usr/include/eigen3 "$D/demo.cpp" -o "$WT/demo_mut" >"$WT/demo_mut.log" 2>&1 && { timeout 600 "$WT/demo_mut" >"$WT/demo_mut.out" 2>&1; DEMO_MUT=$?; } || DEMO_MUT=compile-failed
fi
export FAILED BUILDERR T
python3 - "$D" "$APPLY" "$BRC" "$SUMMARY" "$DEMO_CLEAN" "$DEMO_MUT" "$WT" $RCS <<'PY'
import sys, json, os, subprocess
d, apply_, brc, summ, dc, dm, wt = sys.argv[1:8]; rcs = [int(x) for x in sys.argv[8:11]]
tail = lambda p: open(p, errors='replace').read()[-400:] if os.path.exists(p) else ''
v = {'patch_applies': apply_ == 'ok', 'suite_scope': 'subset (time-boxed third round): ' + os.environ.get('T', ''), 'suite_build_rc': int(brc), 'ctest_rc': rcs, 'ctest_summary': summ,
     'demo_exit_clean_tree': dc, 'demo_exit_with_change': dm, 'failed_tests': os.environ.get('FAILED', ''), 'build_errors': os.environ.get('BUILDERR', ''),
     'repo_head': subprocess.run(['git', '-C', '/repo', 'rev-parse', '--short', 'HEAD'], stdout=subprocess.PIPE, text=True).stdout.strip(),
     'demo_output_with_change_tail': tail(os.path.join(wt, 'demo_mut.out'))}
v['confirmed'] = v['patch_applies'] and v['suite_build_rc'] == 0 and rcs == [0, 0, 0] and str(dc) == '0' and str(dm) not in ('0', 'na', 'compile-failed')
json.dump(v, open(os.path.join(d, 'verify.json'), 'w'), indent=1)
print(os.path.basename(d), 'confirmed' if v['confirmed'] else 'NOT CONFIRMED', v['ctest_summary'], rcs, 'demo', dc, dm, os.environ.get('FAILED', ''))
PY
git -C /repo worktree remove --force "$WT" >/dev/null 2>&1; rm -rf "$WT"
