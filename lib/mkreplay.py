#!/usr/bin/env python3
"""mkreplay.py <property> <config> <out.json> --ints 1,2 --reals 0.5,1e-7,... [--tag T] [--note text]"""
import sys, json, argparse
ap = argparse.ArgumentParser()
ap.add_argument('prop'); ap.add_argument('config'); ap.add_argument('out')
ap.add_argument('--ints', default=''); ap.add_argument('--reals', default=''); ap.add_argument('--tag', default=''); ap.add_argument('--note', default='')
a = ap.parse_args()
def f(x):
    x = x.strip()
    return float.fromhex(x) if x.lower().startswith(('0x', '-0x')) else float(x)
reals = [f(x) for x in a.reals.split(',') if x.strip()]
ints = [int(x) for x in a.ints.split(',') if x.strip()]
def hx(v):
    if v != v: return 'nan'
    if v in (float('inf'), float('-inf')): return 'inf' if v > 0 else '-inf'
    return v.hex()
j = {'property': a.prop, 'config': a.config, 'ints': ints, 'reals_hex': [hx(v) for v in reals],
     'reals': [v if v == v and abs(v) != float('inf') else str(v) for v in reals], 'tag': a.tag, 'note': a.note}
json.dump(j, open(a.out, 'w'))
print(a.out)
