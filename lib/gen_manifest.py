#!/usr/bin/env python3
"""Regenerates /verif/MANIFEST.json from lib/props.py (claimed checks) and properties.jsonl."""
import json, os, sys
ROOT = os.path.dirname(os.path.dirname(os.path.abspath(__file__)))
sys.path.insert(0, os.path.join(ROOT, 'lib'))
import props

META = {
    'C01': ('compose/inverse/identity/act compared with products of reference homogeneous matrices; exact-rational instantiation checked for exact equality',
            'property-based testing (rapidcheck), differential against an independent matrix model; exact arithmetic over a rational scalar'),
    'C02': ('stratified generated tangents compared with a scaled-Taylor matrix exponential in long double, confirmed in 50 digits',
            'property-based testing (rapidcheck), differential against a reference matrix exponential'),
    'C03': ('log checked through exp on the reference model (well conditioned on the group), principal range, q/-q metamorphic relation, exp-log round trip',
            'property-based testing (rapidcheck): round-trip + metamorphic (double cover) + reference exponential'),
    'C04': ('definitions of rplus/lplus/rminus/lminus/between against the reference model, round trips, bit-identity of every alias and free function, view operands',
            'property-based testing (rapidcheck): differential against reference model + alias differential'),
    'C05': ('each analytic Jacobian compared with Richardson-extrapolated central differences of the reference model on the tangent space (long double / 50 digits)',
            'property-based testing (rapidcheck) with a finite-difference derivative oracle on an independent model'),
    'C06': ('rjac/ljac against the series sum ad^k/(k+1)! of the reference model, inverses, Adj by conjugation, exp(ad), homomorphism, smallAdj = commutator',
            'property-based testing (rapidcheck), algebraic identities against an independent model'),
}

DEFAULT_NOTE = ('held on the generated cases only; trusts the reference model in engine/vf_ref.cpp (documented matrix layouts, Taylor expm), '
                'Eigen on long double / boost cpp_bin_float_50, and the tolerances of DESIGN.md 1.4')


def main():
    ids = [json.loads(l)['id'] for l in open(os.path.join(ROOT, 'properties.jsonl'))]
    titles = {json.loads(l)['id']: json.loads(l)['title'] for l in open(os.path.join(ROOT, 'properties.jsonl'))}
    pending = getattr(props, 'NOT_APPLICABLE', {})
    checks, na = [], []
    for i in ids:
        if i in props.PROPS and i in META:
            text, tech = META[i]
            checks.append({
                'property_id': i,
                'quick_cmd': './check %s --tier quick' % i,
                'thorough_cmd': './check %s --tier thorough' % i,
                'evidence_file': 'evidence/%s.json' % i,
                'replay_cmd_template': './check %s --replay {path}' % i,
                'engine': props.PROPS[i].get('engine', 'rapidcheck + reference model'),
                'level_claimed': {'category': 'exploration', 'text': text, 'design_ref': 'DESIGN.md section 2/' + i},
                'level_note': props.PROPS[i].get('level_note', DEFAULT_NOTE),
                'technique': tech,
            })
        else:
            na.append({'property_id': i, 'reason': pending.get(i, 'check not built yet in this snapshot of /verif (work in progress; the technique applies, see DESIGN.md section 2/%s)' % i)})
    man = {
        'version': 1,
        'setup_cmd': './setup.sh',
        'hooks': {
            'guard': 'MANIF_VERIF',
            'enable': 'no hooks are needed: the library is header-only and every observation point is public API; the checks compile their harnesses against /repo/include directly',
            'baseline_off_cmd': 'cmake --build /repo/_build && ctest --test-dir /repo/_build -j8 --timeout 900',
            'source_commits': [],
            'add_only': True,
        },
        'engines': [
            {'name': 'rapidcheck + reference model', 'path': 'engine/', 'serves_properties': [c['property_id'] for c in checks if c['engine'].startswith('rapidcheck')],
             'kind_free_text': 'property-based testing (rapidcheck) over stratified generators against an independent extended-precision matrix model of the groups; shrinking; replay files'},
        ] + getattr(props, 'EXTRA_ENGINES', []),
        'checks': checks,
        'notes': 'All checks: ./check <id> --tier quick|thorough; VERIF_SEED selects the seed; VERIF_REPO overrides /repo (used for mutant self-tests). See DESIGN.md.',
        'not_applicable': na,
    }
    json.dump(man, open(os.path.join(ROOT, 'MANIFEST.json'), 'w'), indent=1)
    print('MANIFEST.json: %d checks, %d not claimed' % (len(checks), len(na)))


if __name__ == '__main__':
    main()
