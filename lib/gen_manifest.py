#!/usr/bin/env python3
"""Regenerates /verif/MANIFEST.json from lib/props.py (claimed checks) and properties.jsonl."""
import json, os, sys
ROOT = os.path.dirname(os.path.dirname(os.path.abspath(__file__)))
sys.path.insert(0, os.path.join(ROOT, 'lib'))
import props

META = {
    'C01': ('compose/inverse/identity/act compared with products of reference homogeneous matrices; exact-rational instantiation checked for exact equality',
            'property-based testing (rapidcheck), differential against an independent matrix model; exact arithmetic over a rational scalar'),
    'C02': ('stratified generated tangents compared with a scaled-Taylor matrix exponential in long double, confirmed in 50 digits',
            'property-based testing (rapidcheck), differential against a reference matrix exponential'),
    'C03': ('log checked through exp on the reference model (well conditioned on the group), principal range, q/-q metamorphic relation, exp-log round trip',
            'property-based testing (rapidcheck): round-trip + metamorphic (double cover) + reference exponential'),
    'C04': ('definitions of rplus/lplus/rminus/lminus/between against the reference model, round trips, bit-identity of every alias and free function, view operands',
            'property-based testing (rapidcheck): differential against reference model + alias differential'),
    'C05': ('each analytic Jacobian compared with Richardson-extrapolated central differences of the reference model on the tangent space (long double / 50 digits)',
            'property-based testing (rapidcheck) with a finite-difference derivative oracle on an independent model'),
    'C06': ('rjac/ljac against the series sum ad^k/(k+1)! of the reference model, inverses, Adj by conjugation, exp(ad), homomorphism, smallAdj = commutator',
            'property-based testing (rapidcheck), algebraic identities against an independent model'),
    'C07': ('generator tables, hat/vee, bracket identities (antisymmetry, bilinearity, Jacobi), inner product as Frobenius product, InnerWeights SPD: exact equality over an exact rational scalar, 2^12 u over floats; generator index over the whole int range',
            'property-based testing (rapidcheck) over floating and exact-rational scalars; algebraic identities against an independent generator table'),
    'C08': ('generated operation histories (up to 2000 steps, replayed cyclically up to 1e5/1e6 steps) from starting elements at the acceptance threshold; invariant after every step: finite, unit within the library threshold, no drift; no exception in the assertion-enabled build',
            'stateful property-based testing (rapidcheck op sequences, shrinkable) with a per-step invariant; assertion-enabled and NDEBUG builds'),
    'C09': ('every operation under all subsets of its optional outputs, outputs bound to blocks of pre-filled larger matrices, re-evaluation after unrelated activity, aliased assignments, first use of the statics in generated orders across processes; all compared bit for bit',
            'property-based testing (rapidcheck), metamorphic: output-subset / history / aliasing invariance, bitwise'),
    'C10': ('owning vs Map vs Map<const> operands for every operation over exact-size heap blocks at aligned and mis-aligned offsets under AddressSanitizer; writes through views checked against guard words',
            'property-based testing (rapidcheck) + AddressSanitizer/UBSan, differential across storage kinds, guard zones'),
    'C11': ('every Bundle operation compared with the same operation on stand-alone elements at offsets recomputed by the harness; off-diagonal entries exact zeros with NaN-prefilled outputs; element<i>() aliasing',
            'property-based testing (rapidcheck), differential bundle vs per-element'),
    'C12': ('derivatives through an independent dual-number scalar compared with the analytic Jacobians for 26 operation/functor-argument pairs incl. the ceres-style functors over raw pointers; float vs double on identical inputs',
            'property-based testing (rapidcheck), differential AD vs analytic, float vs double'),
    'C13': ('every constructor / setter / accessor with generated arguments against reference rotations; validation on both sides of the acceptance threshold in assertion-enabled and NDEBUG builds; cast<>() validity',
            'property-based testing (rapidcheck), round-trips and reference rotations, two build configurations'),
    'C14': ('generated thread programs over shared const objects and first use of every lazily initialised static, many fresh processes, ThreadSanitizer + comparison with a single-threaded evaluation',
            'generated thread programs (schedule exploration) with ThreadSanitizer as oracle and single-thread differential'),
    'C15': ('end points for all methods and velocities, rejection of t outside [0,1] and of unsupported degrees, SLERP against A*exp(t*log(A^-1 B)) on the reference model, left equivariance, exact-rational evaluation of the smoothing polynomial',
            'property-based testing (rapidcheck), reference model + metamorphic (equivariance) + exact arithmetic'),
    'C16': ('validity, identical points, empty set, stationarity of the residual on the reference model, order independence, left/right equivariance for the four routines on generated point clouds',
            'property-based testing (rapidcheck), fixed-point residual oracle + metamorphic relations (permutation, translation)'),
    'C17': ('single generated cells and exhaustive sweeps of the box (N<=16, d<=N, k<=4, open/closed) under AddressSanitizer with memory/time guards: size, window end points, geodesic for degree 2, exceptions for invalid arguments',
            'property-based testing (rapidcheck) + exhaustive enumeration of the parameter box under AddressSanitizer'),
    'C18': ('reflexivity for every generated element and eps (large coordinates, q/-q), symmetry, near/far decisions one to four decades from eps where the noise floor permits, tangent absolute/relative tests',
            'property-based testing (rapidcheck), relational properties of the tolerance relation'),
    'C19': ('exhaustive enumeration of 16120 one-entry client programs (entry x group x scalar x storage), compiled, linked and run against the canonical member',
            'exhaustive generation of client programs, compiler + bit-for-bit forwarding check as oracle'),
}

DEFAULT_NOTE = ('held on the generated cases only; trusts the reference model in engine/vf_ref.cpp (documented matrix layouts, Taylor expm), '
                'Eigen on long double / boost cpp_bin_float_50, and the tolerances of DESIGN.md 1.4')


def main():
    ids = [json.loads(l)['id'] for l in open(os.path.join(ROOT, 'properties.jsonl'))]
    titles = {json.loads(l)['id']: json.loads(l)['title'] for l in open(os.path.join(ROOT, 'properties.jsonl'))}
    pending = getattr(props, 'NOT_APPLICABLE', {})
    checks, na = [], []
    for i in ids:
        if i in props.PROPS and i in META:
            text, tech = META[i]
            checks.append({
                'property_id': i,
                'quick_cmd': './check %s --tier quick' % i,
                'thorough_cmd': './check %s --tier thorough' % i,
                'evidence_file': 'evidence/%s.json' % i,
                'replay_cmd_template': './check %s --replay {path}' % i,
                'engine': props.PROPS[i].get('engine', 'rapidcheck + reference model'),
                'level_claimed': {'category': 'exploration', 'text': text, 'design_ref': 'DESIGN.md section 2/' + i},
                'level_note': props.PROPS[i].get('level_note', DEFAULT_NOTE),
                'technique': tech,
            })
        else:
            na.append({'property_id': i, 'reason': pending.get(i, 'check not built yet in this snapshot of /verif (work in progress; the technique applies, see DESIGN.md section 2/%s)' % i)})
    man = {
        'version': 1,
        'setup_cmd': './setup.sh',
        'hooks': {
            'guard': 'MANIF_VERIF',
            'enable': 'no hooks are needed: the library is header-only and every observation point is public API; the checks compile their harnesses against /repo/include directly',
            'baseline_off_cmd': 'cmake --build /repo/_build && ctest --test-dir /repo/_build -j8 --timeout 900',
            'source_commits': [],
            'add_only': True,
        },
        'engines': [
            {'name': 'rapidcheck + reference model', 'path': 'engine/', 'serves_properties': [c['property_id'] for c in checks if c['engine'].startswith('rapidcheck')],
             'kind_free_text': 'property-based testing (rapidcheck) over stratified generators against an independent extended-precision matrix model of the groups; shrinking; replay files'},
            {'name': 'generated thread programs + ThreadSanitizer', 'path': 'lib/c14.py', 'serves_properties': ['C14'],
             'kind_free_text': 'generated multi-threaded programs (props/C14_prog.cpp), one process per program, TSan as race oracle'},
            {'name': 'exhaustive program generation + compiler as oracle', 'path': 'lib/c19.py', 'serves_properties': ['C19'],
             'kind_free_text': 'enumerates the entry x group x scalar x storage matrix of one-entry client programs (props/C19_entries.py), delta-debugs failing translation units'},
        ],
        'checks': checks,
        'notes': 'All checks: ./check <id> --tier quick|thorough; VERIF_SEED selects the seed; VERIF_REPO overrides /repo (used for mutant self-tests). See DESIGN.md.',
        'not_applicable': na,
    }
    json.dump(man, open(os.path.join(ROOT, 'MANIFEST.json'), 'w'), indent=1)
    print('MANIFEST.json: %d checks, %d not claimed' % (len(checks), len(na)))


if __name__ == '__main__':
    main()
