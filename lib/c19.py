#!/usr/bin/env python3
"""C19 -- the documented generic API instantiates everywhere (exhaustive enumeration).

The finite matrix {API entry} x {group} x {float,double} x {owning, Map, Map<const>} of one-line
client programs is generated from /verif/props/C19_entries.py, compiled + linked (g++; clang++ too in
the thorough tier) and run: every entry compares the call on the operand kind under test with the
canonical member evaluated on owning copies, bit for bit, on three generated inputs.

A translation unit that does not build is shrunk (compiler-diagnostic attribution, then bisection)
down to single-entry translation units; each minimal failing program is a replay file.

Entry points used by lib/vfdriver.py:   run(ctx, prop, stage, tier, res)   replay(ctx, prop, stage, path)
Stand-alone:                            python3 /verif/lib/c19.py --selftest [--tier thorough] [--groups SO2,SE3]
"""
import sys, os, re, json, glob, time, hashlib, shutil, subprocess, threading, importlib.util
import concurrent.futures as cf

HERE = os.path.dirname(os.path.abspath(__file__))
NCPU = int(os.environ.get('VF_JOBS', 16))
STD_FLAGS = ['-std=c++11', '-O0', '-w']
RUN_TIMEOUT = 300
COMPILE_TIMEOUT = 1800
N_SETS = 3
TRANSIENT = re.compile(r'internal compiler error|Killed signal|out of memory|No space left|cannot allocate memory|Resource temporarily unavailable', re.I)

# (name, family, C++ type with {S}, number of bundle elements, chunk size = entries per translation unit)
GROUPS = [
    ('SO2', 'SO2', 'manif::SO2<{S}>', 0),
    ('SE2', 'SE2', 'manif::SE2<{S}>', 0),
    ('SO3', 'SO3', 'manif::SO3<{S}>', 0),
    ('SE3', 'SE3', 'manif::SE3<{S}>', 0),
    ('SE_2_3', 'SE_2_3', 'manif::SE_2_3<{S}>', 0),
    ('SGal3', 'SGal3', 'manif::SGal3<{S}>', 0),
    ('R1', 'Rn', 'manif::Rn<{S}, 1>', 0),
    ('R3', 'Rn', 'manif::Rn<{S}, 3>', 0),
    ('R9', 'Rn', 'manif::Rn<{S}, 9>', 0),
    ('B_SE3_SO2_R3', 'Bundle', 'manif::Bundle<{S}, manif::SE3, manif::SO2, manif::R3>', 3),
    ('B_SGal3_SE2_SE23_SO3_R1', 'Bundle',
     'manif::Bundle<{S}, manif::SGal3, manif::SE2, manif::SE_2_3, manif::SO3, manif::R1>', 5),
]
SCALARS = ['float', 'double']
KINDS = ['own', 'map', 'cmap']
KIND_DESC = {'own': 'owning', 'map': 'Eigen::Map<G>', 'cmap': 'const Eigen::Map<const G>'}
# The compiler reports an error inside a library template once per specialisation (at its first point of instantiation), so a
# translation unit with k entries reaching the same broken specialisation needs k shrink rounds. To keep that cheap the complete
# set of failing entries is first established on one cheap pilot group (small translation units, exploded to single entries on
# failure); for the other groups those entries are built as single-entry programs from the start. The prediction only saves time:
# every cell is still compiled, and unexpected failures are shrunk by attribution / bisection as usual.
PILOT = ('SE2', 'float')
PILOT_CHUNK = 10


# --------------------------------------------------------------------------------------------------
# entry table
# --------------------------------------------------------------------------------------------------
def entries_path(ctx):
    return os.path.join(ctx.root, 'props', 'C19_entries.py')


def load_entries(ctx):
    spec = importlib.util.spec_from_file_location('C19_entries', entries_path(ctx))
    mod = importlib.util.module_from_spec(spec)
    spec.loader.exec_module(mod)
    return mod.ENTRIES


def expand_entries(entries, group, kind):
    """applicable (name, code, entry) triples of one (group, kind) cell-group"""
    gname, fam, _, nel = group
    out = []
    for e in entries:
        if e['groups'] is not None and fam not in e['groups']:
            continue
        if e['kinds'] is not None and kind not in e['kinds']:
            continue
        if e['mut'] and kind == 'cmap':
            continue
        rep = {'{N}': str(nel),
               '{XELEMS}': ', '.join('X.template element<%d>()' % i for i in range(nel)),
               '{TELEMS}': ', '.join('t.template element<%d>()' % i for i in range(nel))}
        if e['per_element']:
            for i in range(nel):
                code = e['code'].replace('{I}', str(i))
                for k, v in rep.items():
                    code = code.replace(k, v)
                out.append(('%s<%d>' % (e['name'], i), code, e))
        else:
            code = e['code']
            for k, v in rep.items():
                code = code.replace(k, v)
            out.append((e['name'], code, e))
    return out


# --------------------------------------------------------------------------------------------------
# C++ generation
# --------------------------------------------------------------------------------------------------
PRELUDE = r'''
#include <manif/manif.h>
#include <cstdio>
#include <cstdlib>
#include <cstring>
#include <sstream>
#include <string>
#include <vector>
#include <list>
#include <exception>
#include <type_traits>

typedef @SCALAR@ S;
typedef @GROUP@ G;
typedef G::Tangent T;
#define C19_KIND @KINDNO@   /* 0: owning   1: Eigen::Map<G>   2: const Eigen::Map<const G> */
#define C19_DEFAULT_SEED @SEED@ULL

#if C19_KIND == 0
typedef G GK;
typedef T TK;
#elif C19_KIND == 1
typedef Eigen::Map<G> GK;
typedef Eigen::Map<T> TK;
#else
typedef Eigen::Map<const G> GK;
typedef Eigen::Map<const T> TK;
#endif

namespace c19 {

static const char* g_entry = "?";
static int  g_set = 0;
static long g_checks = 0, g_mismatch = 0;

inline void fail(const char* what, const char* expr, int line)
{
  ++g_mismatch;
  std::printf("%s %s set=%d line=%d %s\n", what, g_entry, g_set, line, expr);
  std::fflush(stdout);
}

// bit-for-bit comparison ------------------------------------------------------------------------
template <class A, class B>
bool same_dense(const Eigen::MatrixBase<A>& a_, const Eigen::MatrixBase<B>& b_)
{
  static_assert(std::is_same<typename A::Scalar, typename B::Scalar>::value, "CHECK_SAME: scalar types differ");
  const typename A::PlainObject a = a_;
  const typename B::PlainObject b = b_;
  if (a.rows() != b.rows() || a.cols() != b.cols()) return false;
  for (int j = 0; j < a.cols(); ++j)
    for (int i = 0; i < a.rows(); ++i) {
      const typename A::Scalar x = a(i, j), y = b(i, j);
      if (std::memcmp(&x, &y, sizeof(x)) != 0) return false;
    }
  return true;
}
template <class A, class B>
bool same(const manif::LieGroupBase<A>& a, const manif::LieGroupBase<B>& b) { return same_dense(a.coeffs(), b.coeffs()); }
template <class A, class B>
bool same(const manif::TangentBase<A>& a, const manif::TangentBase<B>& b) { return same_dense(a.coeffs(), b.coeffs()); }
template <class A, class B>
bool same(const Eigen::MatrixBase<A>& a, const Eigen::MatrixBase<B>& b) { return same_dense(a, b); }
template <class A, class B>
bool same(const Eigen::QuaternionBase<A>& a, const Eigen::QuaternionBase<B>& b) { return same_dense(a.coeffs(), b.coeffs()); }
template <class Sc, int D, int M, int O>
bool same(const Eigen::Transform<Sc, D, M, O>& a, const Eigen::Transform<Sc, D, M, O>& b) { return same_dense(a.matrix(), b.matrix()); }
template <class A>
typename std::enable_if<std::is_arithmetic<A>::value, bool>::type
same(const A& a, const A& b) { return std::memcmp(&a, &b, sizeof(A)) == 0; }
template <class A, class AA, class B, class BA>
bool same(const std::vector<A, AA>& a, const std::vector<B, BA>& b)
{
  if (a.size() != b.size()) return false;
  for (std::size_t i = 0; i < a.size(); ++i) if (!same(a[i], b[i])) return false;
  return true;
}

#define CHECK_SAME(a, b) do { ++c19::g_checks; if (!c19::same((a), (b))) c19::fail("MISMATCH", #a " != " #b, __LINE__); } while (0)
#define CHECK_TRUE(c)    do { ++c19::g_checks; if (!(c)) c19::fail("MISMATCH", "!(" #c ")", __LINE__); } while (0)

// generic client code, as in docs/pages/cpp/Writing-generic-code.md ---------------------------------
template <typename DerivedA, typename DerivedB>
typename DerivedA::Scalar
generic_ominus_norm(const manif::LieGroupBase<DerivedA>& state, const manif::LieGroupBase<DerivedB>& state_other)
{
  return (state - state_other).squaredWeightedNorm();
}
template <typename Derived>
std::string generic_print(const manif::LieGroupBase<Derived>& g)
{
  std::ostringstream os;
  os << "Degrees of freedom: " << int(manif::LieGroupBase<Derived>::DoF) << "\n"
     << "Underlying representation vector size: " << int(manif::LieGroupBase<Derived>::RepSize) << "\n"
     << "Current values: " << g << "\n";
  return os.str();
}

// deterministic inputs ---------------------------------------------------------------------------
struct Lcg {
  unsigned long long s;
  double next() {   // uniform in (-1, 1)
    s = s * 6364136223846793005ULL + 1442695040888963407ULL;
    return (double(s >> 11) * (1.0 / 9007199254740992.0)) * 2.0 - 1.0;
  }
};
struct Inputs {
  T a, b, t, u;
  G X, Y;
  G::Vector v;
  T::DataType tv;
  S s;
};
static Inputs g_in;

template <class V> void fill(Lcg& g, V& x) { for (int i = 0; i < int(x.size()); ++i) x[i] = S(g.next()); }

static void make_inputs(unsigned long long seed, int set)
{
  Lcg g; g.s = seed * 0x9E3779B97F4A7C15ULL + 0x632BE59BD9B4E019ULL * (unsigned long long)(set + 1);
  for (int i = 0; i < 4; ++i) g.next();
  T::DataType d;
  fill(g, d); g_in.a = T(d);
  fill(g, d); g_in.b = T(d);
  fill(g, d); g_in.t = T(d);
  fill(g, d); g_in.u = T(d);
  g_in.X = g_in.a.exp();
  g_in.Y = g_in.b.exp();
  fill(g, g_in.v);
  fill(g, g_in.tv);
  g_in.s = S(0.25 + 0.375 * (g.next() + 1.0));
}

// operands of one entry: X Y t u are of the operand kind under test, Xo Yo to uo owning copies -------------------
template <class V> S* load(S* buf, const V& x) { for (int i = 0; i < int(x.size()); ++i) buf[i] = x[i]; return buf; }

struct Operands {
  G Xo, Yo; T to, uo;
  G::Jacobian J1, J2, J3, J4;
  Eigen::Matrix<S, G::Dim, G::DoF> JA1, JA2;
  Eigen::Matrix<S, G::Dim, G::Dim> JV1, JV2;
  G::Vector v; T::DataType tv; const S s; const S eps;
  S bufG[G::RepSize], bufT[T::RepSize], bX_[G::RepSize], bY_[G::RepSize], bt_[T::RepSize], bu_[T::RepSize];
#if C19_KIND == 0
  G X, Y; T t, u;
#elif C19_KIND == 1
  Eigen::Map<G> X, Y; Eigen::Map<T> t, u;
#else
  const Eigen::Map<const G> X, Y; const Eigen::Map<const T> t, u;
#endif
  Operands()
    : Xo(g_in.X), Yo(g_in.Y), to(g_in.t), uo(g_in.u), v(g_in.v), tv(g_in.tv), s(g_in.s), eps(S(1e-4)),
#if C19_KIND == 0
      X(Xo), Y(Yo), t(to), u(uo)
#else
      X(load(bX_, Xo.coeffs())), Y(load(bY_, Yo.coeffs())), t(load(bt_, to.coeffs())), u(load(bu_, uo.coeffs()))
#endif
  {
    load(bufG, Yo.coeffs()); load(bufT, uo.coeffs());
    J1.setConstant(S(1)); J2.setConstant(S(2)); J3.setConstant(S(3)); J4.setConstant(S(4));
    JA1.setConstant(S(1)); JA2.setConstant(S(2)); JV1.setConstant(S(1)); JV2.setConstant(S(2));
  }
};

} // namespace c19
'''

MAIN = r'''
int main(int argc, char** argv)
{
  std::setvbuf(stdout, 0, _IOLBF, 1 << 12);
  const unsigned long long seed = argc > 1 ? std::strtoull(argv[1], 0, 10) : C19_DEFAULT_SEED;
  const int only = argc > 2 ? std::atoi(argv[2]) : -1;
  const int n = int(sizeof(k_entries) / sizeof(k_entries[0]));
  long executed = 0, exceptions = 0;
  for (int set = 0; set < @NSETS@; ++set) {
    for (int i = 0; i < n; ++i) {
      if (only >= 0 && only != i) continue;
      c19::make_inputs(seed, set);
      c19::g_set = set;
      c19::g_entry = k_entries[i].name;
      try {
        Cells c;
        (c.*k_entries[i].fn)();
        ++executed;
      } catch (const std::exception& e) {
        ++exceptions;
        std::printf("EXCEPTION %s set=%d %s\n", k_entries[i].name, set, e.what());
      } catch (...) {
        ++exceptions;
        std::printf("EXCEPTION %s set=%d (unknown)\n", k_entries[i].name, set);
      }
    }
  }
  std::printf("C19-DONE entries=%d executed=%ld checks=%ld mismatches=%ld exceptions=%ld\n",
              n, executed, c19::g_checks, c19::g_mismatch, exceptions);
  return (c19::g_mismatch || exceptions) ? 1 : 0;
}
'''


def gen_source(group, scalar, kind, items, seed=1, header=''):
    """-> (source text, [(first line, last line)] per item)"""
    gname, fam, gtype, nel = group
    pre = PRELUDE.replace('@SCALAR@', scalar).replace('@GROUP@', gtype.replace('{S}', 'S'))
    pre = pre.replace('@KINDNO@', str(KINDS.index(kind))).replace('@SEED@', str(int(seed)))
    lines = []
    lines.append('// property C19 (artivis/manif): documented API entry instantiated for a group / scalar / operand kind')
    lines.append('// group=%s (%s)  scalar=%s  operand kind=%s' % (gname, gtype.replace('{S}', scalar), scalar, KIND_DESC[kind]))
    lines.append('// entries: %s' % ' '.join(n for n, _, _ in items[:6]) + (' ... (%d)' % len(items) if len(items) > 6 else ''))
    for h in header.splitlines():
        lines.append('// ' + h)
    lines.extend(pre.split('\n'))
    spans = []
    lines.append('// every entry is a member function of Cells: the operands above are visible under their plain names')
    lines.append('struct Cells : c19::Operands {')
    for i, (name, code, e) in enumerate(items):
        lines.append('// ---- %s  [%s%s; documented in %s]' % (name, e['cat'], ', mutating' if e['mut'] else '', e['doc']))
        first = len(lines) + 1
        lines.append('void e_%d()' % i)
        lines.append('{ ' + code + ' }')
        spans.append((first, len(lines)))
    lines.append('};')
    lines.append('struct Entry { const char* name; void (Cells::*fn)(); };')
    lines.append('static const Entry k_entries[] = {')
    for i, (name, code, e) in enumerate(items):
        lines.append('  {"%s", &Cells::e_%d},' % (name, i))
    lines.append('};')
    lines.extend(MAIN.replace('@NSETS@', str(N_SETS)).split('\n'))
    return '\n'.join(lines) + '\n', spans


# --------------------------------------------------------------------------------------------------
# building (content-addressed cache under ctx.build_root/c19-<hash>/)
# --------------------------------------------------------------------------------------------------
def sh(cmd, timeout=None, cwd=None):
    try:
        r = subprocess.run(cmd, stdout=subprocess.PIPE, stderr=subprocess.STDOUT, timeout=timeout, cwd=cwd)
        return r.returncode, r.stdout.decode('utf-8', 'replace')
    except subprocess.TimeoutExpired as ex:
        return 124, (ex.stdout or b'').decode('utf-8', 'replace') + '\n(timeout)'
    except OSError as ex:
        return 127, str(ex)


def inc_flags(ctx):
    return ['-I' + os.path.join(ctx.repo, 'include'), '-I' + os.path.join(ctx.repo, 'external', 'tl'),
            '-I/usr/include/eigen3']


def compiler_flags(cxx):
    if 'clang' in os.path.basename(cxx):
        return STD_FLAGS + ['-ferror-limit=0']
    return STD_FLAGS + ['-fmax-errors=0']


def sha(*parts):
    h = hashlib.sha256()
    for p in parts:
        h.update(p if isinstance(p, bytes) else str(p).encode())
        h.update(b'\0')
    return h.hexdigest()


class Builder:
    def __init__(self, ctx, cxx):
        self.ctx = ctx
        self.cxx = cxx
        rc, ver = sh([cxx, '--version'])
        self.available = rc == 0
        with open(entries_path(ctx), 'rb') as f:
            etab = f.read()
        with open(os.path.abspath(__file__), 'rb') as f:
            me = f.read()
        self.key = sha(ctx.repo_hash(), etab, me, ver, ' '.join(compiler_flags(cxx)))[:16]
        self.dir = os.path.join(ctx.build_root, 'c19-' + self.key)
        os.makedirs(os.path.join(self.dir, 'o'), exist_ok=True)
        self.flags = compiler_flags(cxx) + inc_flags(ctx)
        self.pch = []
        self.n_compiles = 0
        self.n_cached = 0

    def prepare_pch(self):
        """precompiled manif/manif.h (g++ only; purely an accelerator: the sources include the header themselves)"""
        if 'clang' in os.path.basename(self.cxx) or os.environ.get('C19_NO_PCH'):
            return
        d = os.path.join(self.dir, 'pch')
        hdr = os.path.join(d, 'c19_pch.h')
        gch = hdr + '.gch'
        if not os.path.exists(gch):
            os.makedirs(d, exist_ok=True)
            with open(hdr, 'w') as f:
                f.write('#include <manif/manif.h>\n#include <cstdio>\n#include <cstdlib>\n#include <cstring>\n#include <sstream>\n'
                        '#include <string>\n#include <vector>\n#include <list>\n#include <exception>\n#include <type_traits>\n')
            tmp = gch + '.tmp%d' % os.getpid()
            rc, out = sh([self.cxx] + self.flags + ['-x', 'c++-header', hdr, '-o', tmp], timeout=COMPILE_TIMEOUT)
            if rc != 0:
                return
            os.replace(tmp, gch)
        self.pch = ['-I' + d, '-include', 'c19_pch.h']

    def build(self, src_text, label):
        """compile + link one program; -> dict(ok, exe, src, out). Cached by source content."""
        k = sha(src_text)[:24]
        base = os.path.join(self.dir, 'o', k)
        src, exe, log = base + '.cpp', base + '.exe', base + '.log'
        if os.path.exists(exe):
            self.n_cached += 1
            return {'ok': True, 'exe': exe, 'src': src, 'out': '', 'label': label}
        if os.path.exists(log):
            self.n_cached += 1
            with open(log, errors='replace') as f:
                return {'ok': False, 'exe': None, 'src': src, 'out': f.read(), 'label': label}
        with open(src, 'w') as f:
            f.write(src_text)
        tmp = exe + '.tmp%d.%d' % (os.getpid(), threading.get_ident())
        cmd = [self.cxx] + self.flags + self.pch + [src, '-o', tmp]
        for attempt in (0, 1):
            self.n_compiles += 1
            rc, out = sh(cmd, timeout=COMPILE_TIMEOUT)
            if rc == 0 and os.path.exists(tmp):
                os.replace(tmp, exe)
                return {'ok': True, 'exe': exe, 'src': src, 'out': out, 'label': label}
            if os.path.exists(tmp):
                os.remove(tmp)
            transient = rc in (124, 127) or TRANSIENT.search(out) is not None
            if not transient:
                break
        if rc == 124:
            out += '\nerror: compiler timed out after %d s' % COMPILE_TIMEOUT
        if not transient:   # a failure caused by the machine (out of memory, disk, time-out) is never cached
            with open(log + '.tmp%d' % os.getpid(), 'w') as f:
                f.write(out)
            os.replace(log + '.tmp%d' % os.getpid(), log)
        return {'ok': False, 'exe': None, 'src': src, 'out': out, 'label': label, 'transient': transient}


def first_error_line(out, src=None):
    lines = out.splitlines()
    pick = None
    for l in lines:
        if 'undefined reference' in l or 'multiple definition' in l:
            pick = l
            break
    if pick is None:
        for l in lines:
            if re.search(r'\berror\b', l) and 'ld returned' not in l:
                pick = l
                break
    if pick is None:
        for l in lines:
            if l.strip():
                pick = l
                break
    if pick is None:
        return '(no compiler output)'
    pick = pick.strip()
    if src:
        pick = pick.replace(src, '<program>')
    return pick[:600]


def attribute(out, src, spans):
    """indices of the entries named by the compiler / linker diagnostics (source lines of the program, or the entry function)"""
    hit = set()
    pat = re.compile(r'(?:' + re.escape(src) + r'|(?:^|[\s/])' + re.escape(os.path.basename(src)) + r'):(\d+)[:,]')
    fn = re.compile(r'Cells::e_(\d+)\(\)')
    for l in out.splitlines():
        for m in pat.finditer(l):
            ln = int(m.group(1))
            for i, (a, b) in enumerate(spans):
                if a <= ln <= b:
                    hit.add(i)
        for m in fn.finditer(l):
            if int(m.group(1)) < len(spans):
                hit.add(int(m.group(1)))
    return hit


def sanitize(name):
    return re.sub(r'[^A-Za-z0-9_.+-]', '_', name.replace('<', '_').replace('>', ''))


class Cell:
    __slots__ = ('group', 'scalar', 'kind', 'name', 'code', 'entry', 'status', 'why', 'exe', 'idx', 'detail')

    def __init__(self, group, scalar, kind, name, code, entry):
        self.group, self.scalar, self.kind, self.name, self.code, self.entry = group, scalar, kind, name, code, entry
        self.status = None   # 'built' | 'compile-fail'  then 'ok' | 'mismatch' | 'exception' | 'crash'
        self.why = ''
        self.exe = None
        self.idx = -1
        self.detail = ''

    def ident(self):
        return '%s-%s-%s-%s' % (self.group[0], self.scalar, self.kind, sanitize(self.name))

    def describe(self):
        return '%s / %s / %s / %s: %s' % (self.group[0], self.scalar, KIND_DESC[self.kind], self.name, self.code)


def build_cells(builder, cell_lists, pool, say=None, learned=None, explode=False):
    """cell_lists: lists of Cells sharing (group, scalar, kind); every list is built as one program. A list that does not build is
    shrunk down to single-cell programs: the cells named by the diagnostics (plus those whose entry is already known not to
    build for that operand kind, `learned`) are split off as single-cell programs, the rest is rebuilt; without usable
    attribution the list is bisected. explode=True: a failing list goes straight to single-cell programs (pilot).
    Sets status/exe/idx/why on every cell; updates learned {kind: set(entry names)}. -> number of programs built"""
    learned = learned if learned is not None else {}
    n_programs = 0
    pending = []
    for cells in cell_lists:
        bad = [c for c in cells if c.name in learned.get(c.kind, ())] if len(cells) > 1 else []
        if bad and len(bad) < len(cells):
            pending.append([c for c in cells if c.name not in learned.get(c.kind, ())])
            pending.extend([[c] for c in bad])
        else:
            pending.append(cells)
    rnd = 0
    while pending:
        rnd += 1
        pending.sort(key=lambda l: -len(l) * (3 if l[0].group[1] == 'Bundle' else 1))
        jobs = []
        for cells in pending:
            c0 = cells[0]
            text, spans = gen_source(c0.group, c0.scalar, c0.kind, [(c.name, c.code, c.entry) for c in cells])
            jobs.append((cells, text, spans))
        results = list(pool.map(lambda j: builder.build(j[1], j[0][0].ident()), jobs))
        n_programs += len(jobs)
        failed_multi = []
        for (cells, text, spans), r in zip(jobs, results):
            if r['ok']:
                for i, c in enumerate(cells):
                    c.status, c.exe, c.idx = 'built', r['exe'], i
            elif len(cells) == 1 and r.get('transient'):
                c = cells[0]
                c.status = 'inconclusive'
                c.why = 'compiler failure not attributable to the program: ' + first_error_line(r['out'], r['src'])
            elif len(cells) == 1:
                c = cells[0]
                c.status = 'compile-fail'
                c.why = first_error_line(r['out'], r['src'])
                c.detail = r['out']
                learned.setdefault(c.kind, set()).add(c.name)
            else:
                failed_multi.append((cells, spans, r))
        nxt = []
        for cells, spans, r in failed_multi:
            if explode:
                nxt.extend([[c] for c in cells])
                continue
            bad = attribute(r['out'], r['src'], spans)
            bad |= set(i for i, c in enumerate(cells) if c.name in learned.get(c.kind, ()))
            if bad and len(bad) < len(cells):
                nxt.append([c for i, c in enumerate(cells) if i not in bad])
                nxt.extend([[cells[i]] for i in sorted(bad)])
            else:   # no usable attribution: bisect
                h = len(cells) // 2
                nxt.append(cells[:h])
                nxt.append(cells[h:])
        if say and nxt:
            say('  c19: round %d: %d of %d programs did not build -> %d smaller programs' % (
                rnd, sum(1 for r in results if not r['ok']), len(jobs), len(nxt)))
        pending = nxt
    return n_programs


def run_cells(cells, seed, pool):
    """run every built program once; classify its cells"""
    by_exe = {}
    for c in cells:
        if c.status == 'built':
            by_exe.setdefault(c.exe, []).append(c)

    def one(exe):
        rc, out = sh([exe, str(seed)], timeout=RUN_TIMEOUT)
        died = {}
        if 'C19-DONE' not in out:
            # the process died (signal / abort / timeout): find the entries that kill it
            for c in by_exe[exe]:
                rc1, out1 = sh([exe, str(seed), str(c.idx)], timeout=RUN_TIMEOUT)
                if 'C19-DONE' not in out1:
                    died[c.idx] = (rc1, (out1.strip().splitlines() or ['(no output)'])[-1][:300])
        return exe, rc, out, died

    for exe, rc, out, died in pool.map(one, list(by_exe)):
        cs = sorted(by_exe[exe], key=lambda c: c.idx)
        byname = {c.name: c for c in cs}
        for c in cs:
            c.status = 'ok'
        for l in out.splitlines():
            m = re.match(r'(MISMATCH|EXCEPTION) (\S+) set=(\d+) (.*)', l)
            if m and m.group(2) in byname:
                c = byname[m.group(2)]
                if c.status == 'ok':
                    c.status = 'mismatch' if m.group(1) == 'MISMATCH' else 'exception'
                    c.why = '%s at run time: %s (input set %s, seed %d)' % (m.group(1).lower(), m.group(4)[:300], m.group(3), seed)
        for c in cs:
            if c.idx in died:
                c.status = 'crash'
                c.why = 'process died at run time (status %d, seed %d): %s' % (died[c.idx][0], seed, died[c.idx][1])
        if 'C19-DONE' not in out and not died:
            for c in cs:   # dies only when the entries run in sequence: blame the program as a whole
                if c.status == 'ok':
                    c.status = 'crash'
                    c.why = 'program of %d entries died at run time (status %d) although every entry passes alone' % (len(cs), rc)


def replay_source(cell, seed, cxx, why):
    hdr = ('replay of a C19 violation: this single-entry program must compile, link and exit with status 0\n'
           'compiler: %s %s -I<repo>/include -I<repo>/external/tl -I/usr/include/eigen3\n'
           'snippet: %s\nobserved: %s') % (cxx, ' '.join(STD_FLAGS), cell.code, why.replace('\n', ' ')[:500])
    text, _ = gen_source(cell.group, cell.scalar, cell.kind, [(cell.name, cell.code, cell.entry)], seed=seed, header=hdr)
    return text


def write_replay(ctx, prop, cell, seed, cxx, stage, suffix=''):
    d = os.path.join(ctx.root, 'replays', prop)
    os.makedirs(d, exist_ok=True)
    path = os.path.join(d, cell.ident() + suffix + '.cpp')
    with open(path, 'w') as f:
        f.write(replay_source(cell, seed, cxx, cell.why))
    # descriptor understood by lib/vfdriver.py:do_replay (which dispatches on a JSON file carrying the stage name)
    with open(path[:-4] + '.json', 'w') as f:
        json.dump({'stage': stage.get('name'), 'property': prop, 'cpp': path, 'compiler': cxx, 'group': cell.group[0],
                   'scalar': cell.scalar, 'kind': cell.kind, 'entry': cell.name, 'seed': seed, 'why': cell.why}, f, indent=1)
    return path


def prune(ctx, keep, others=3):
    """drop old build caches: keep those of this run and the `others` most recently used other ones"""
    try:
        ds = [os.path.join(ctx.build_root, x) for x in os.listdir(ctx.build_root)
              if x.startswith('c19-') and x not in keep and not x.startswith('c19-replay-')]
        ds.sort(key=lambda p: os.path.getmtime(p), reverse=True)
        for p in ds[others:]:
            shutil.rmtree(p, ignore_errors=True)
    except OSError:
        pass


def as_list(x):
    if x is None:
        return []
    return x if isinstance(x, list) else [x]


def known_finding_of(known, cell):
    """a finding of KNOWN_FINDINGS.json (status 'known', property C19) covers the failing cells matched by one of its 'cells'
    regular expressions; a cell is named <group>-<scalar>-<own|map|cmap>-<entry>, e.g. 'SE3-double-map-t_op_J_mul'"""
    for k in known:
        for pat in as_list(k.get('cells')):
            try:
                if re.fullmatch(pat, cell.ident()):
                    return k
            except re.error:
                pass
    return None


def chunks_of(cells, size):
    return [cells[i:i + size] for i in range(0, len(cells), size)]


# --------------------------------------------------------------------------------------------------
# driver entry points
# --------------------------------------------------------------------------------------------------
def run(ctx, prop, stage, tier, res):
    t0 = time.time()
    say = getattr(ctx, 'say', print)
    entries = load_entries(ctx)
    only_groups = stage.get('groups') or (os.environ.get('C19_GROUPS', '').split(',') if os.environ.get('C19_GROUPS') else None)
    groups = [g for g in GROUPS if not only_groups or g[0] in only_groups]
    compilers = [os.environ.get('VF_CXX', 'g++')]
    if tier == 'thorough':
        compilers.append('clang++')
    single_groups = set(g[0] for g in GROUPS[:3]) if tier == 'thorough' else set()
    # stale replays written by a previous run of this module are not evidence of this one
    rdir = os.path.join(ctx.root, 'replays', prop)
    if os.path.isdir(rdir):
        for f in os.listdir(rdir):
            if not f.endswith('.cpp'):
                continue
            try:
                with open(os.path.join(rdir, f), errors='replace') as fh:
                    mine = fh.readline().startswith('// property C19 (artivis/manif)')
                if mine:
                    os.remove(os.path.join(rdir, f))
                    if os.path.exists(os.path.join(rdir, f[:-4] + '.json')):
                        os.remove(os.path.join(rdir, f[:-4] + '.json'))
            except OSError:
                pass

    cells_total = cells_failed = cells_ran = n_programs = cells_inconclusive = 0
    keep = set()
    known = [k for k in getattr(ctx, 'known', []) if k.get('status') == 'known' and prop in as_list(k.get('property'))]
    known_hits = {}
    fail_list = []
    samples = []
    per_compiler = {}
    entry_names = set()
    with cf.ThreadPoolExecutor(max_workers=NCPU) as pool:
        for cxx in compilers:
            b = Builder(ctx, cxx)
            if not b.available:
                res['notes'].append('compiler %s not available: its part of the C19 matrix was not checked' % cxx)
                continue
            keep.add(os.path.basename(b.dir))
            os.utime(b.dir, None)
            b.prepare_pch()
            all_cells, lists, pilot_lists = [], [], []
            for g in groups:
                for sc in SCALARS:
                    for kd in KINDS:
                        cs = [Cell(g, sc, kd, n, code, e) for n, code, e in expand_entries(entries, g, kd)]
                        all_cells.extend(cs)
                        if (g[0], sc) == PILOT:
                            pilot_lists.extend(chunks_of(cs, PILOT_CHUNK))
                        else:
                            lists.append(cs)   # one translation unit per (group, scalar, kind)
                        if g[0] in single_groups:
                            # thorough: additionally every cell as its own translation unit
                            cs1 = [Cell(g, sc, kd, n, code, e) for n, code, e in expand_entries(entries, g, kd)]
                            all_cells.extend(cs1)
                            lists.extend(chunks_of(cs1, 1))
            tb = time.time()
            learned = {}
            n_programs += build_cells(b, pilot_lists, pool, say, learned, explode=True)
            if say and any(learned.values()):
                say('  c19: pilot %s/%s: entries that do not build: %s' % (PILOT[0], PILOT[1], {k: sorted(v) for k, v in learned.items()}))
            n_programs += build_cells(b, lists, pool, say, learned)
            res['build_s'] = res.get('build_s', 0) + time.time() - tb
            run_cells(all_cells, ctx.seed, pool)
            seen_replay = set()
            nfail = 0
            suffix = '' if cxx == compilers[0] else '-' + sanitize(os.path.basename(cxx))
            failing = []
            for c in all_cells:
                entry_names.add(c.name)
                if c.status == 'ok':
                    cells_ran += 1
                    continue
                if c.status == 'inconclusive':
                    cells_inconclusive += 1
                    res['notes'].append('%s [%s]: %s (inconclusive)' % (c.ident(), cxx, c.why))
                    continue
                nfail += 1
                if c.ident() not in seen_replay:
                    seen_replay.add(c.ident())
                    failing.append(c)

            def confirm(c):
                # run-time failures are confirmed with the stand-alone single-entry program
                if c.status == 'compile-fail':
                    return
                r = b.build(replay_source(c, ctx.seed, cxx, c.why), c.ident())
                if r['ok']:
                    rc1, out1 = sh([r['exe']], timeout=RUN_TIMEOUT)
                    c.why += ' [stand-alone program: exit status %d]' % rc1
                else:
                    c.why += ' [stand-alone program does not build: %s]' % first_error_line(r['out'], r['src'])

            list(pool.map(confirm, failing))
            for c in failing:
                path = write_replay(ctx, prop, c, ctx.seed, cxx, stage, suffix)
                kf = known_finding_of(known, c)
                if kf is not None:   # excluded by construction, reported as a KNOWN-FINDING line
                    known_hits[kf['id']] = known_hits.get(kf['id'], 0) + 1
                    fail_list.append({'cell': c.ident(), 'compiler': cxx, 'status': 'known:' + kf['id'], 'why': c.why, 'snippet': c.code})
                    continue
                res['violations'].append({'replay': path, 'why': ('[%s] ' % cxx if len(compilers) > 1 else '') + c.why})
                fail_list.append({'cell': c.ident(), 'compiler': cxx, 'status': c.status, 'why': c.why, 'snippet': c.code})
            cells_total += len(all_cells)
            cells_failed += nfail
            per_compiler[cxx] = {'cells': len(all_cells), 'failed': nfail, 'programs_compiled': b.n_compiles,
                                 'programs_from_cache': b.n_cached, 'build_dir': b.dir}
            if not samples:
                step = max(1, len(all_cells) // 6)
                samples = [c.describe() for c in all_cells[::step]][:6]
            # replay tier: stored regression programs must build and pass (witnesses of known findings must still fail)
            regress = sorted(f for f in glob.glob(os.path.join(ctx.root, 'replays', 'regress', prop, '*.cpp')))
            witness_of = {os.path.abspath(os.path.join(ctx.root, k['witness'])): k for k in known if k.get('witness')}

            def one_regress(path):
                with open(path, errors='replace') as f:
                    r = b.build(f.read(), os.path.basename(path))
                if not r['ok']:
                    return path, 'does not build: ' + first_error_line(r['out'], r['src'])
                rc1, out1 = sh([r['exe']], timeout=RUN_TIMEOUT)
                return path, None if rc1 == 0 else 'exit status %d: %s' % (rc1, (out1.strip().splitlines() or [''])[0][:300])

            for path, why in pool.map(one_regress, regress):
                res['replayed'] = res.get('replayed', 0) + 1
                kf = witness_of.get(os.path.abspath(path))
                if kf is not None:
                    if why:
                        known_hits[kf['id']] = known_hits.get(kf['id'], 0) + 1
                elif why:
                    res['violations'].append({'replay': path, 'why': 'regression replay fails [%s]: %s' % (cxx, why)})
    prune(ctx, keep)
    for k in known:
        if known_hits.get(k['id']):
            res['known_lines'].append('KNOWN-FINDING: property=%s %s [%s] cells=%d%s' % (
                prop, k.get('text') or k.get('line', ''), k['id'], known_hits[k['id']],
                ' witness=' + k['witness'] if k.get('witness') else ''))
        elif k.get('cells') or (k.get('witness') or '').endswith('.cpp'):
            res['notes'].append('known finding %s no longer reproduces (no failing cell matches it)' % k['id'])
    res['extra_evaluations'] = res.get('extra_evaluations', 0) + cells_total
    res['extra_nontrivial'] = res.get('extra_nontrivial', 0) + cells_ran
    res.setdefault('extra_samples', []).extend(samples)
    res.setdefault('extra_cov', {}).update({
        'cells_total': cells_total, 'cells_failed': cells_failed, 'cells_compiled_and_ran': cells_ran,
        'entries': len(entries), 'entry_instances': len(entry_names), 'translation_units': n_programs,
        'groups': [g[0] for g in groups], 'scalars': SCALARS, 'kinds': [KIND_DESC[k] for k in KINDS],
        'compilers': per_compiler, 'input_sets_per_program': N_SETS, 'failing_cells': fail_list[:400],
        'cells_inconclusive': cells_inconclusive, 'excluded_known': sum(known_hits.values()), 'known_hits': known_hits,
        'exhaustive': True, 'c19_wall_s': round(time.time() - t0, 1),
        'rule': 'finite matrix {documented API entry} x {group} x {float,double} x {owning, Map, Map<const>}: every applicable '
                'cell is generated, compiled, linked and run (enumeration, not sampling); a cell is a distinct program',
    })
    res['exhaustive'] = True
    return res


def replay(ctx, prop, stage, path):
    path = os.path.abspath(path)
    cxx = os.environ.get('VF_CXX', 'g++')
    if path.endswith('.json'):
        with open(path) as f:
            j = json.load(f)
        cxx = j.get('compiler', cxx)
        cpp = j.get('cpp', path[:-5] + '.cpp')
        if not os.path.exists(cpp):
            cpp = path[:-5] + '.cpp'
    else:
        cpp = path
        try:
            with open(cpp, errors='replace') as f:
                m = re.search(r'^// compiler: (\S+)', f.read(4000), re.M)
            if m:
                cxx = m.group(1)
        except OSError:
            pass
    if not os.path.exists(cpp):
        sys.stderr.write('replay file %s not found\n' % cpp)
        return 2
    d = os.path.join(ctx.build_root, 'c19-replay-%d' % os.getpid())
    os.makedirs(d, exist_ok=True)
    exe = os.path.join(d, 'replay.exe')
    try:
        rc, out = sh([cxx] + compiler_flags(cxx) + inc_flags(ctx) + [cpp, '-o', exe], timeout=COMPILE_TIMEOUT)
        if rc != 0:
            print('does not compile/link with %s against %s:' % (cxx, ctx.repo))
            print('  ' + first_error_line(out, cpp))
            print('VIOLATION property=%s replay=%s' % (prop, path))
            return 1
        rc, out = sh([exe], timeout=RUN_TIMEOUT)
        if rc != 0:
            print(out.strip()[-2000:])
            print('program exits with status %d' % rc)
            print('VIOLATION property=%s replay=%s' % (prop, path))
            return 1
        print(out.strip().splitlines()[-1] if out.strip() else '')
        print('replay passes: %s compiles, links and runs (exit status 0)' % os.path.basename(cpp))
        return 0
    finally:
        shutil.rmtree(d, ignore_errors=True)


# --------------------------------------------------------------------------------------------------
# stand-alone self test
# --------------------------------------------------------------------------------------------------
class FakeCtx:
    def __init__(self, repo, root, seed):
        self.repo, self.root, self.seed = repo, root, seed
        self.build_root = os.path.join(root, 'build')
        self.known = []

    def say(self, *a):
        print(*a, flush=True)

    def repo_hash(self):
        h = hashlib.sha256()
        for top in (os.path.join(self.repo, 'include'), os.path.join(self.repo, 'external', 'tl')):
            for d, ds, fs in os.walk(top):
                ds.sort()
                for f in sorted(fs):
                    p = os.path.join(d, f)
                    h.update(p.encode())
                    try:
                        with open(p, 'rb') as fh:
                            h.update(fh.read())
                    except OSError:
                        h.update(b'<missing>')
        return h.hexdigest()[:16]


def selftest(argv):
    import argparse
    ap = argparse.ArgumentParser()
    ap.add_argument('--selftest', action='store_true')
    ap.add_argument('--tier', default='quick')
    ap.add_argument('--repo', default=os.environ.get('VERIF_REPO', '/repo'))
    ap.add_argument('--root', default=os.path.dirname(HERE))
    ap.add_argument('--seed', type=int, default=int(os.environ.get('VERIF_SEED', '1') or 1))
    ap.add_argument('--groups')
    ap.add_argument('--replay')
    a = ap.parse_args(argv)
    ctx = FakeCtx(a.repo, a.root, a.seed or 1)
    try:
        with open(os.path.join(a.root, 'KNOWN_FINDINGS.json')) as f:
            ctx.known = json.load(f).get('findings', [])
    except (OSError, ValueError):
        pass
    stage = {'name': 'c19', 'kind': 'py', 'module': 'c19', 'fn': 'run'}
    if a.groups:
        stage['groups'] = a.groups.split(',')
    if a.replay:
        return replay(ctx, 'C19', stage, a.replay)
    res = {'frags': [], 'violations': [], 'known_lines': [], 'notes': [], 'replayed': 0}
    t0 = time.time()
    run(ctx, 'C19', stage, a.tier, res)
    wall = time.time() - t0
    cov = res['extra_cov']
    for n in res['notes']:
        print('note:', n)
    for l in res['known_lines']:
        print(l)
    for v in res['violations']:
        print('VIOLATION property=C19 replay=%s' % v['replay'])
        print('  ' + v['why'][:300])
    summary = {}
    for fcell in cov['failing_cells']:
        e = fcell['cell'].split('-', 3)[-1]
        d = summary.setdefault((e, fcell['status']), [0, set(), fcell['why']])
        d[0] += 1
        d[1].add(fcell['cell'].split('-')[0])
    for (e, st), (n, gs, why) in sorted(summary.items(), key=lambda kv: -kv[1][0]):
        print('  %4d cells  %-28s %-12s groups=%s\n             e.g. %s' % (n, e, st, ','.join(sorted(gs)), why[:220]))
    print('C19 selftest tier=%s repo=%s seed=%d: entries=%d cells=%d ran=%d failed=%d programs=%d compiled=%s wall=%.1fs' % (
        a.tier, a.repo, ctx.seed, cov['entries'], cov['cells_total'], cov['cells_compiled_and_ran'], cov['cells_failed'],
        cov['translation_units'], {k: (v['programs_compiled'], v['programs_from_cache']) for k, v in cov['compilers'].items()}, wall))
    return 1 if res['violations'] else 0


if __name__ == '__main__':
    sys.exit(selftest(sys.argv[1:]))
