"""C09 process-level stage: first use of the lazily initialised statics in generated orders."""
import os, json, subprocess, hashlib, concurrent.futures as cf
import vfdriver


def _build(ctx):
    src = os.path.join(ctx.root, 'props', 'C09_firstuse.cpp')
    flags = ['-std=gnu++17', '-O1', '-ffp-contract=off', '-w']
    d = ctx.harness_dir([src], flags)
    exe = os.path.join(d, 'C09_firstuse')
    if not os.path.exists(exe):
        cmd = [vfdriver.CXX] + flags + ctx.inc + [src, '-o', exe + '.tmp']
        r = vfdriver.sh(cmd)
        if r.returncode != 0:
            log = exe + '.compile.log'
            open(log, 'w').write(' '.join(cmd) + '\n' + r.stdout)
            return None, log
        os.replace(exe + '.tmp', exe)
    return exe, None


def _run(exe, seed):
    r = subprocess.run([exe, str(seed)], stdout=subprocess.PIPE, stderr=subprocess.PIPE, text=True, timeout=120)
    return r.returncode, r.stdout, r.stderr.strip()


def run(ctx, prop, stage, tier, res):
    exe, log = _build(ctx)
    if not exe:
        res['violations'].append({'replay': log, 'why': 'first-use program does not compile'})
        return
    n = stage['launches'][tier]
    seeds = [ctx.derive_seed(prop, 'firstuse', i) for i in range(n)]
    outs = {}
    with cf.ThreadPoolExecutor(max_workers=vfdriver.NCPU) as ex:
        for seed, (rc, out, err) in zip(seeds, ex.map(lambda s: _run(exe, s), seeds)):
            outs[seed] = (rc, out, err)
    ref_seed = seeds[0]
    ref = outs[ref_seed][1]
    distinct_orders = len(set(o[2] for o in outs.values()))
    for seed in seeds:
        rc, out, err = outs[seed]
        if rc != 0 or out != ref:
            path = os.path.join(ctx.root, 'replays', prop, 'firstuse-%d.json' % seed)
            os.makedirs(os.path.dirname(path), exist_ok=True)
            diff = [l.split(' ')[0] for l, m in zip(out.splitlines(), ref.splitlines()) if l != m][:5]
            json.dump({'property': prop, 'stage': stage['name'], 'seed': seed, 'ref_seed': ref_seed, 'rc': rc, 'differs_in': diff}, open(path, 'w'))
            res['violations'].append({'replay': path, 'why': 'results of static helpers depend on the order of first use (rc=%d, differing: %s)' % (rc, diff)})
    res['extra_evaluations'] = res.get('extra_evaluations', 0) + n
    res['extra_nontrivial'] = res.get('extra_nontrivial', 0) + max(0, distinct_orders - 1)
    res.setdefault('extra_samples', []).append({'stage': 'firstuse', 'seed': ref_seed, 'order': outs[ref_seed][2], 'helpers': len(ref.splitlines())})
    res.setdefault('extra_cov', {}).update({'firstuse_launches': n, 'firstuse_distinct_orders': distinct_orders})


def replay(ctx, prop, stage, path):
    j = json.load(open(path))
    exe, log = _build(ctx)
    if not exe:
        print(open(log).read()[-2000:]); return 1
    a = _run(exe, j['seed']); b = _run(exe, j['ref_seed'])
    if a[0] != 0 or a[1] != b[1]:
        print('VIOLATION property=%s replay=%s' % (prop, path)); return 1
    print('first-use dumps identical'); return 0
