#!/usr/bin/env python3
"""./selftest [ids...] [--tier quick|thorough] [--seeds 1,2]
Sensitivity self-test: every seeded change under /verif/seeded/<id>/ (patch.diff + meta.json) is applied to a
scratch copy of the repository headers, the checks named in meta.json ('checks', default: the property it
breaks) are run against it through VERIF_REPO, and the detection table is printed / written to
seeded/DETECTION.json.  The scratch copy is removed afterwards.  /repo itself is never touched."""
import sys, os, json, subprocess, shutil, tempfile, time, argparse

ROOT = os.path.dirname(os.path.dirname(os.path.abspath(__file__)))
REPO = os.environ.get('VERIF_BASE_REPO', '/repo')


def scratch_copy():
    d = tempfile.mkdtemp(prefix='vfmut-')
    subprocess.run(['git', '-C', REPO, 'worktree', 'add', '--detach', '-f', d, 'HEAD'], stdout=subprocess.DEVNULL, stderr=subprocess.DEVNULL, check=True)
    # carry uncommitted header edits of /repo over as well (checks always test the working tree)
    diff = subprocess.run(['git', '-C', REPO, 'diff', 'HEAD', '--', 'include', 'external'], stdout=subprocess.PIPE).stdout
    if diff.strip():
        subprocess.run(['git', '-C', d, 'apply'], input=diff, check=True)
    return d


def drop(d):
    subprocess.run(['git', '-C', REPO, 'worktree', 'remove', '--force', d], stdout=subprocess.DEVNULL, stderr=subprocess.DEVNULL)
    shutil.rmtree(d, ignore_errors=True)


def main():
    ap = argparse.ArgumentParser()
    ap.add_argument('ids', nargs='*')
    ap.add_argument('--tier', default='quick')
    ap.add_argument('--seeds', default='1')
    a = ap.parse_args()
    sdir = os.path.join(ROOT, 'seeded')
    ids = a.ids or sorted(x for x in os.listdir(sdir) if os.path.isdir(os.path.join(sdir, x)))
    table = []
    for mid in ids:
        md = os.path.join(sdir, mid)
        meta = json.load(open(os.path.join(md, 'meta.json')))
        checks = meta.get('checks') or [meta['property']]
        d = scratch_copy()
        try:
            r = subprocess.run(['git', '-C', d, 'apply', os.path.join(md, 'patch.diff')], stdout=subprocess.PIPE, stderr=subprocess.STDOUT, text=True)
            if r.returncode != 0:
                table.append({'id': mid, 'property': meta['property'], 'error': 'patch does not apply: ' + r.stdout[-300:]})
                print('%-28s patch does not apply' % mid, flush=True)
                continue
            row = {'id': mid, 'property': meta['property'], 'needs': meta.get('needs', ''), 'results': {}}
            for chk in checks:
                for seed in a.seeds.split(','):
                    env = dict(os.environ); env['VERIF_REPO'] = d; env['VERIF_SEED'] = seed
                    env['VF_EVIDENCE_DIR'] = os.path.join(d, '_evidence')   # do not overwrite the evidence of the real tree
                    t0 = time.time()
                    rr = subprocess.run([os.path.join(ROOT, 'check'), chk, '--tier', a.tier], stdout=subprocess.PIPE, stderr=subprocess.STDOUT, text=True, env=env, cwd=ROOT)
                    viol = [l for l in rr.stdout.splitlines() if l.startswith('VIOLATION')]
                    why = ''
                    for i, l in enumerate(rr.stdout.splitlines()):
                        if l.startswith('VIOLATION'):
                            nxt = rr.stdout.splitlines()[i + 1] if i + 1 < len(rr.stdout.splitlines()) else ''
                            why = nxt.strip()[:200]
                            break
                    row['results']['%s/seed%s' % (chk, seed)] = {'detected': rr.returncode == 1 and bool(viol), 'rc': rr.returncode, 'violations': len(viol), 'first': why, 'wall_s': round(time.time() - t0, 1)}
                    print('%-28s %-4s seed=%s %s (%d violation lines, %.0fs) %s' % (mid, chk, seed, 'DETECTED' if rr.returncode == 1 and viol else 'missed', len(viol), time.time() - t0, why[:110]), flush=True)
            table.append(row)
        finally:
            drop(d)
            # replays written while testing a mutant are not findings on the real tree
            subprocess.run(['git', '-C', ROOT, 'clean', '-fdq', 'replays'], stdout=subprocess.DEVNULL)
    out = os.path.join(sdir, 'DETECTION.json')
    old = []
    if os.path.exists(out) and a.ids:
        prev = json.load(open(out))
        old = [r for r in prev if r['id'] not in ids]
        # results of other seeds / checks obtained earlier for the same change are kept
        byid = {r['id']: r for r in prev}
        for r in table:
            for key, v in byid.get(r['id'], {}).get('results', {}).items():
                r.setdefault('results', {}).setdefault(key, v)
    json.dump(sorted(old + table, key=lambda r: r['id']), open(out, 'w'), indent=1)
    return 0


if __name__ == '__main__':
    sys.exit(main())
