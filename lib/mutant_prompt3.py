#!/usr/bin/env python3
"""third-round prompt: round two plus a time box and a request for sequence / cooperating-site changes"""
import sys, subprocess
pid, wt, out = sys.argv[1:4]; n = sys.argv[4] if len(sys.argv) > 4 else '2'
base = subprocess.run([sys.executable, '/verif/lib/mutant_prompt2.py', pid, wt, out, n], stdout=subprocess.PIPE, text=True).stdout
base = base.replace('## Second round', '## Third round')
extra = """
## Time box
You have about 25 minutes of wall-clock time in total. Build with at most 3 jobs. Build only the one or two test executables that exercise what you changed (never gtest_rn unless you touched Rn: its compilation needs 10 GB). Write the deliverables of each mutant as soon as it is ready, so that a finished mutant is not lost if time runs out. Favour changes that need a multi-step sequence of operations, an unusual input, or two cooperating sites that each look fine alone, in code paths the earlier changes did not touch (look at the less-travelled members: setters, coeffs-level accessors, the free functions in functions.h, Random/setIdentity, cast, Bundle element access, tangent-side operators, generators, the autodiff helpers, algorithms).
"""
print(base.replace('## Your task', extra + '\n## Your task', 1))
