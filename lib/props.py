"""Property table: which harness sources / configurations / budgets decide each property."""

D_GROUPS = ['SO2d', 'SE2d', 'SO3d', 'SE3d', 'SE_2_3d', 'SGal3d', 'R3d']
F_GROUPS = ['SO2f', 'SE2f', 'SO3f', 'SE3f', 'SE_2_3f', 'R3f']
BUNDLES = ['B_SE3_SO2_R3_d', 'B_SGal3_SE2_SE23_SO3_R1_d']
ALL_BUNDLES = ['B_SE3_SO2_R3_d', 'B_SGal3_SE2_SE23_SO3_R1_d', 'B_R2_SO3_SO3_SE2_d', 'B_SE23_SGal3_d',
               'B_SO2_d', 'B_R9_d', 'B_SE2x3_d', 'B_SO2_SGal3_SO2_d']

ASSUME_ORACLE = [
    'reference model: documented matrix layout of each group + scaled Taylor matrix exponential in long double / 50-digit boost cpp_bin_float (engine/vf_ref.cpp), independent of manif',
    'Eigen dense arithmetic on long double / cpp_bin_float_50, libm long double, rapidcheck 0.x generators',
    'tolerances of DESIGN.md 1.4',
]

PROPS = {
    'C02': {
        'rule': 'tangent stratified by rotation magnitude x linear magnitude; non-trivial: theta != 0 and some linear component >= 1e-3; distinct = distinct input bit patterns',
        'assumptions': ASSUME_ORACLE,
        'stages': [
            {'src': 'C02.cpp', 'configs': D_GROUPS + F_GROUPS + BUNDLES,
             'cases': {'quick': 12000, 'thorough': 400000}, 'shards': {'quick': 1, 'thorough': 2}},
        ],
    },
}
