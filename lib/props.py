"""Property table: which harness sources / configurations / budgets decide each property."""

D_GROUPS = ['SO2d', 'SE2d', 'SO3d', 'SE3d', 'SE_2_3d', 'SGal3d', 'R3d']
F_GROUPS = ['SO2f', 'SE2f', 'SO3f', 'SE3f', 'SE_2_3f', 'SGal3f', 'R3f']
BUNDLES = ['B_SE3_SO2_R3_d', 'B_SGal3_SE2_SE23_SO3_R1_d']
ALL_BUNDLES = ['B_SE3_SO2_R3_d', 'B_SGal3_SE2_SE23_SO3_R1_d', 'B_R2_SO3_SO3_SE2_d', 'B_SE23_SGal3_d',
               'B_SO2_d', 'B_R9_d', 'B_SE2x3_d', 'B_SO2_SGal3_SO2_d']

RAT_GROUPS = ['SO2r', 'SE2r', 'SO3r', 'SE3r', 'SE_2_3r', 'SGal3r', 'R3r', 'B_SE3_SO2_R3_SE2_SE23_r', 'B_SGal3_SO3_r']

ASSUME_ORACLE = [
    'reference model: documented matrix layout of each group + scaled Taylor matrix exponential in long double / 50-digit boost cpp_bin_float (engine/vf_ref.cpp), independent of manif',
    'Eigen dense arithmetic on long double / cpp_bin_float_50, libm long double, rapidcheck 0.x generators',
    'tolerances of DESIGN.md 1.4',
]

PROPS = {
    'C01': {
        'rule': 'triples of valid elements (angle-axis over [0,4pi] strata, both hemispheres, raw tiny-|v| quaternions; linear parts 0..1e6 independent of the rotation) and points; non-trivial: no identity operand, rotation angle > 1e-3 in X and Y, non-zero linear parts',
        'assumptions': ASSUME_ORACLE,
        'stages': [
            {'src': 'C01.cpp', 'configs': D_GROUPS + ['R1d', 'R7d'] + F_GROUPS + ALL_BUNDLES,
             'cases': {'quick': 8000, 'thorough': 300000}, 'shards': {'quick': 1, 'thorough': 2}},
            {'src': 'C01_rat.cpp', 'configs': RAT_GROUPS, 'tag': '-exact',
             'cases': {'quick': 1500, 'thorough': 50000}, 'shards': {'quick': 1, 'thorough': 2},
             'case_scale': {'B_SE3_SO2_R3_SE2_SE23_r': 0.3}},
        ],
    },
    'C02': {
        'rule': 'tangent stratified by rotation magnitude x linear magnitude; non-trivial: theta != 0 and some linear component >= 1e-3; distinct = distinct input bit patterns',
        'assumptions': ASSUME_ORACLE,
        'stages': [
            {'src': 'C02.cpp', 'configs': D_GROUPS + F_GROUPS + BUNDLES,
             'cases': {'quick': 12000, 'thorough': 400000}, 'shards': {'quick': 1, 'thorough': 2}},
        ],
    },
    'C03': {
        'rule': 'element = manif product of 1..3 generated elements (rotation by angle-axis over [0,4pi] strata, raw tiny-|v| quaternions in both hemispheres), q/-q pairs, tangents with theta < pi-1e-6; non-trivial: w<0, or angle within 1e-3 of pi, or |v|<1e-6, or chain>1',
        'assumptions': ASSUME_ORACLE,
        'stages': [
            {'src': 'C03.cpp', 'configs': D_GROUPS + F_GROUPS + BUNDLES,
             'cases': {'quick': 10000, 'thorough': 300000}, 'shards': {'quick': 1, 'thorough': 2}},
        ],
    },
    'C04': {
        'rule': 'pairs of valid elements and a tangent (strata of C02/C03), operand storage owning / Map / Map<const> over unaligned buffers; non-trivial: t != 0 and relative rotation of X,Y > 1e-3',
        'assumptions': ASSUME_ORACLE + ['aliases are compared bit-for-bit with the canonical member on identical operands (same process, same translation unit)'],
        'stages': [
            {'src': 'C04.cpp', 'configs': D_GROUPS + F_GROUPS + BUNDLES,
             'cases': {'quick': 8000, 'thorough': 300000}, 'shards': {'quick': 1, 'thorough': 2}},
        ],
    },
    'C05': {
        'rule': 'one of 31 (operation, differentiated argument) pairs x generated elements / tangents / points; logarithm-type operations restricted to relative rotation <= pi-1e-6; non-trivial: argument rotation != 0 and a linear component >= 1e-3',
        'assumptions': ASSUME_ORACLE + ['derivative oracle: Richardson-extrapolated central differences of the reference model on the tangent space (h=1e-6 long double, h=1e-20 in 50 digits), self-estimated error <= 1e-8 or the case is counted inconclusive'],
        'stages': [
            {'src': 'C05.cpp', 'configs': D_GROUPS + ['SE2f', 'SE3f', 'SE_2_3f', 'SGal3f', 'B_SE3_SO2_R3_f'] + BUNDLES,
             'cases': {'quick': 2500, 'thorough': 60000}, 'shards': {'quick': 1, 'thorough': 2},
             'case_scale': {'B_SE3_SO2_R3_d': 0.3, 'B_SE3_SO2_R3_f': 0.3, 'B_SGal3_SE2_SE23_SO3_R1_d': 0.08, 'SGal3d': 0.5, 'SGal3f': 0.5}},
        ],
    },
    'C07': {
        'rule': 'three tangents and a scalar: floating (strata of 1.3) and exact rational (numerators up to 1e6 x 1e9, denominators 1..1000003); generator index over the whole int range (INT_MIN, -1000, -1, 0..DoF+1, 12345, INT_MAX); non-trivial: a and b have >= 2 non-zero components in different component groups',
        'assumptions': ['independent generator table engine/vf_ref.cpp (documented bases)', 'exact scalar vf::Rat = boost cpp_rational with a sticky inexact bit (engine/vf_rat.h): equality is exact equality',
                        'floating configurations: tolerance 2^12 u relative to the product of operand magnitudes'],
        'stages': [
            {'src': 'C07.cpp', 'configs': D_GROUPS + ['R1d', 'SE3f', 'SGal3f', 'SE2f'] + ALL_BUNDLES + RAT_GROUPS,
             'cases': {'quick': 3000, 'thorough': 100000}, 'shards': {'quick': 1, 'thorough': 2},
             'case_scale': {'B_SE3_SO2_R3_SE2_SE23_r': 0.2, 'B_SGal3_SO3_r': 0.3, 'SGal3r': 0.5, 'SE_2_3r': 0.5}},
            # the invalid-index exception must not depend on NDEBUG
            {'src': 'C07.cpp', 'configs': ['SO2d', 'SE2d', 'SE3d', 'SGal3d', 'R3d', 'B_SE3_SO2_R3_d'], 'tag': '-ndebug', 'defs': ['-DNDEBUG'],
             'cases': {'quick': 1500, 'thorough': 50000}, 'shards': {'quick': 1, 'thorough': 1}},
        ],
    },
    'C08': {
        'rule': 'operation histories of 1..2000 generated steps over 16 opcodes (exp, compose, inverse, between, +=, lplus, X*=X, three interpolations, averages, cast round trip, Random, role rotation, reconstruction from coefficients, mixed product) replayed cyclically for up to 1e5 (thorough 1e6) further steps, from three starting elements whose rotation data sits at +-0.9 of the acceptance threshold; non-trivial: a compose entered the renormalisation branch and >= 3 opcodes',
        'assumptions': ['the acceptance threshold is read from the library (manif::Constants<Scalar>::eps)', 'translations are kept below 1e12 by the harness (re-centring is counted) so that overflow of a growing translation is not reported as a defect',
                        'two builds: assertions enabled (any exception is a violation) and -DNDEBUG'],
        'stages': [
            {'src': 'C08.cpp', 'configs': ['SO2d', 'SE2d', 'SO3d', 'SE3d', 'SE_2_3d', 'SGal3d', 'SO2f', 'SE2f', 'SO3f', 'SE3f', 'SGal3f', 'B_SE3_SO2_R3_d', 'B_SE3_SO2_R3_f'],
             'cases': {'quick': 300, 'thorough': 2400}, 'shards': {'quick': 1, 'thorough': 2}, 'max_size': 100},
            {'src': 'C08.cpp', 'configs': ['SE2d', 'SO3d', 'SE3d', 'SGal3d', 'SE3f', 'SO2f'], 'tag': '-ndebug', 'defs': ['-DNDEBUG'],
             'cases': {'quick': 200, 'thorough': 1600}, 'shards': {'quick': 1, 'thorough': 2}, 'max_size': 100},
            {'kind': 'fuzz', 'tiers': ['thorough'], 'src': 'C08.cpp', 'configs': ['SE2d', 'SO3d', 'SE3d', 'SGal3d', 'SE3f', 'SO2f', 'B_SE3_SO2_R3_d', 'SE_2_3d'],
             'seconds': {'quick': 20, 'thorough': 600}, 'jobs': 2, 'max_len': 8192},
        ],
    },
    'C09': {
        'rule': 'every operation with optional outputs is evaluated under ALL subsets of its outputs (enumerated), with outputs bound to blocks at generated offsets of larger pre-filled matrices, re-evaluated after generated unrelated library activity, and in aliased form; non-trivial: X != identity and t != 0',
        'assumptions': ['bit-identity is demanded only between evaluations of the same call on the same operand kind in one process (harness built with -ffp-contract=off)',
                        'the first-use-order part (process-level) is the dedicated stage "firstuse"'],
        'stages': [
            {'src': 'C09.cpp', 'configs': D_GROUPS + ['SE3f', 'SGal3f'] + BUNDLES,
             'cases': {'quick': 4000, 'thorough': 150000}, 'shards': {'quick': 1, 'thorough': 2},
             'case_scale': {'B_SGal3_SE2_SE23_SO3_R1_d': 0.3}},
            {'kind': 'custom', 'name': 'firstuse', 'module': 'c09', 'fn': 'run', 'replay_fn': 'replay', 'launches': {'quick': 16, 'thorough': 300}},
        ],
    },
    'C10': {
        'rule': 'every read-only operation evaluated with owning / Map / Map<const> operands on the left and on the right over exact-size heap blocks at aligned and mis-aligned offsets (AddressSanitizer build), every write operation through mutable views over guarded buffers; views created before the buffer is overwritten must read the new contents (data() is the buffer address); mutable views over not-yet-valid buffers (zeros, fill pattern, off-norm) initialised / normalised through the view; non-trivial: mis-aligned buffer, non-identity operands',
        'assumptions': ['AddressSanitizer + UBSan (g++) report any read outside the exact-size heap block that backs a view; guard words detect writes outside the payload',
                        'results across operand kinds compared within 16u of the magnitude of each result (bit-identity recorded as a statistic)'],
        'stages': [
            {'src': 'C10.cpp', 'configs': D_GROUPS + ['SE3f', 'SO2f'] + BUNDLES, 'tag': '-asan',
             'defs': ['-fsanitize=address,undefined', '-fno-sanitize-recover=undefined', '-fno-omit-frame-pointer'],
             'cases': {'quick': 1500, 'thorough': 60000}, 'shards': {'quick': 1, 'thorough': 2},
             'case_scale': {'B_SGal3_SE2_SE23_SO3_R1_d': 0.3}},
            {'kind': 'fuzz', 'tiers': ['thorough'], 'src': 'C10.cpp', 'configs': ['SE2d', 'SO3d', 'SE3d', 'SGal3d', 'SE3f', 'B_SE3_SO2_R3_d', 'R3d', 'SO2d'],
             'seconds': {'quick': 20, 'thorough': 600}, 'jobs': 2, 'max_len': 2048},
        ],
    },
    'C12': {
        'rule': 'one of 26 (operation or ceres-style functor, differentiated argument) pairs over the dual scalar vf::Dual<DoF> on generated inputs (strata of 1.3 incl. the small-angle region and theta = 0); float configurations: every operation on identical float inputs in float and double; non-trivial: rotation != 0 and >= DoF non-zero dual entries',
        'assumptions': ['vf::Dual<N> (engine/vf_dual.h) is an independent implementation of the ceres::Jet pattern; ceres / autodiff themselves are not installed',
                        'the analytic Jacobians used as reference are those of the double instantiation, themselves checked against finite differences of the model by C05',
                        'logarithm-type operations restricted to relative rotation <= pi - 1e-6; the objective functor is excluded at target == state (norm not differentiable)'],
        'stages': [
            {'src': 'C12.cpp', 'configs': ['SO2j', 'SE2j', 'SO3j', 'SE3j', 'SE_2_3j', 'SGal3j', 'R3j', 'B_SE3_SO2_R3_j'],
             'cases': {'quick': 3000, 'thorough': 150000}, 'shards': {'quick': 1, 'thorough': 2}, 'case_scale': {'SGal3j': 0.5, 'B_SE3_SO2_R3_j': 0.5}},
            {'src': 'C12.cpp', 'configs': F_GROUPS + ['B_SE3_SO2_R3_f'], 'tag': '-float',
             'cases': {'quick': 3000, 'thorough': 150000}, 'shards': {'quick': 1, 'thorough': 2}},
        ],
    },
    'C13': {
        'rule': 'constructor arguments: angles over +-20 pi incl. multiples of pi/2 and near-pi values, forced gimbal pitch, quaternions of both hemispheres (element strata of 1.3), translations/velocities/time 0..1e6, norm deviation delta/eps in {0,.1,.5,.9,1.1,2,10,1e3,1e12} x sign; non-trivial: angle outside the principal range, gimbal, w<0, or delta within a factor 2 of eps',
        'assumptions': ['reference rotations (Rz Ry Rx, Rodrigues via the reference exponential) in long double', 'two builds: assertions enabled and -DNDEBUG'],
        'stages': [
            {'src': 'C13.cpp', 'configs': D_GROUPS + ['R1d'] + F_GROUPS + ['B_SE3_SO2_R3_d', 'B_SE3_SO2_R3_f', 'B_SGal3_SE2_SE23_SO3_R1_d'],
             'cases': {'quick': 6000, 'thorough': 300000}, 'shards': {'quick': 1, 'thorough': 2}},
            {'src': 'C13.cpp', 'configs': ['SO2d', 'SE2d', 'SO3d', 'SE3d', 'SE_2_3d', 'SGal3d', 'SE3f', 'B_SE3_SO2_R3_f'], 'tag': '-ndebug', 'defs': ['-DNDEBUG'],
             'cases': {'quick': 3000, 'thorough': 100000}, 'shards': {'quick': 1, 'thorough': 1}},
            {'kind': 'fuzz', 'tiers': ['thorough'], 'src': 'C13.cpp', 'configs': ['SO2d', 'SE2d', 'SO3d', 'SE3d', 'SE_2_3d', 'SGal3d', 'SE3f', 'B_SE3_SO2_R3_f'],
             'seconds': {'quick': 20, 'thorough': 600}, 'jobs': 2, 'max_len': 2048},
        ],
    },
    'C14': {
        'rule': 'generated thread programs (2..16 threads x 20..200 const operations on shared elements/tangents and static helpers, four first-use orderings, generated yield points), one fresh process per program; non-trivial: >= 2 threads performed the first use of the same static helper with overlapping time intervals',
        'engine': 'generated thread programs + ThreadSanitizer',
        'assumptions': ['oracle = ThreadSanitizer (happens-before race detection, g++ and clang++ runtimes) + bit-identity of every per-thread result with a single-threaded re-evaluation',
                        'schedules are explored (many launches, first uses released from a spin barrier), not enumerated: the harness does not own the scheduler',
                        'the harness synchronises only with relaxed atomics so that it cannot hide a library race from TSan'],
        'level_note': 'exploration of schedules only; a race on a rare value-dependent path is found only as often as the generator takes that path; trusts ThreadSanitizer',
        'stages': [
            {'kind': 'custom', 'name': 'tsan', 'module': 'c14', 'fn': 'run', 'replay_fn': 'replay'},
        ],
    },
    'C19': {
        'rule': 'the finite matrix {310 documented API entries} x {SO2,SE2,SO3,SE3,SE_2_3,SGal3,R1,R3,R9, 2 bundles} x {float,double} x {owning, Map, Map<const>} of one-entry client programs, enumerated exhaustively (16120 cells); each cell must compile, link and, when run on three generated inputs, return the canonical member\'s result bit for bit; every cell is a distinct program, so distinct_nontrivial = cells that compiled and ran',
        'engine': 'exhaustive program generation + compiler as oracle',
        'assumptions': ['the entry table props/C19_entries.py is my reading of the README operation table and the doc-commented public members; instantiability is shown for this table only',
                        'oracle: g++ -std=c++11 (clang++ too in the thorough tier) compile + link, then bit-for-bit comparison with the canonical member on owning copies'],
        'level_note': 'exhaustive over the enumerated entry table and group/scalar/storage matrix, not over every possible client program; trusts g++/clang++',
        'stages': [
            {'kind': 'custom', 'name': 'c19', 'module': 'c19', 'fn': 'run', 'replay_fn': 'replay'},
        ],
    },
    'C15': {
        'rule': 'end points A and B = A (+) d with relative rotation < pi (strata of 1.3), t in {0,1}, (0,1) dense, outside [0,1] (+-1e-12..1e3, NaN, inf), the three methods, degrees 0..8, end velocities of norm 0..10, left translations g; call histories (consecutive SLERP calls sharing one end point, each against the reference geodesic; repeated calls bit-identical for the three methods); exact-rational evaluation of the smoothing polynomial; non-trivial: 0<t<1, A != B, non-zero velocities for CUBIC/CNSMOOTH',
        'assumptions': ASSUME_ORACLE + ['smoothing_phi instantiated over the exact scalar vf::Rat for the monotonicity clause (2000-point grid per degree once per process + generated rational pairs)'],
        'stages': [
            {'src': 'C15.cpp', 'configs': D_GROUPS + ['SE2f', 'SE3f', 'B_SE3_SO2_R3_d'],
             'cases': {'quick': 5000, 'thorough': 200000}, 'shards': {'quick': 1, 'thorough': 2}},
            # argument validation (t outside [0,1], unsupported degrees) must not depend on NDEBUG
            {'src': 'C15.cpp', 'configs': ['SE2d', 'SO3d', 'SE3d', 'R3d', 'SE3f'], 'tag': '-ndebug', 'defs': ['-DNDEBUG'],
             'cases': {'quick': 3000, 'thorough': 100000}, 'shards': {'quick': 1, 'thorough': 1}},
        ],
    },
    'C16': {
        'rule': 'point clouds C (+) delta_i, |delta_i| <= 0.5, n in 0..50, centre C anywhere (rotation strata incl. angle near pi, translations <= 1e3), permutations, left / right translations, identical points, the four routines; every case is a two-call history (the routine is first run on a set of another size, then the result must not depend on a second, different earlier call); non-trivial: n >= 3, spread >= 1e-2, centre rotation >= 0.1',
        'assumptions': ['residual and distances are measured on the reference model (certified logarithm); tolerances: residual 2.02*sqrt(eps) (the routines stop at |step|^2 < eps), equivariance / order 20*sqrt(eps), scaled by |Ad_h| for right translations, plus 2^12 u * coordinates',
                        'the weighted routine average() is only required to be valid, to return identical points, to raise on the empty set and to be left-equivariant'],
        'stages': [
            {'src': 'C16.cpp', 'configs': ['SO2d', 'SE2d', 'SO3d', 'SE3d', 'SE_2_3d', 'SGal3d', 'R3d', 'SE3f', 'B_SE3_SO2_R3_d'],
             'cases': {'quick': 700, 'thorough': 40000}, 'shards': {'quick': 1, 'thorough': 2},
             'case_scale': {'SGal3d': 0.5, 'B_SE3_SO2_R3_d': 0.5}},
            {'src': 'C16.cpp', 'configs': ['SE2d', 'SO3d', 'SE3d', 'R3d'], 'tag': '-ndebug', 'defs': ['-DNDEBUG'],
             'cases': {'quick': 400, 'thorough': 20000}, 'shards': {'quick': 1, 'thorough': 1}},
        ],
    },
    'C17': {
        'rule': 'cells (N, degree, k, closed): single generated cells incl. the invalid-argument classes, and sweep cases that enumerate the whole box 3<=N<=16, 2<=d<=N, 1<=k<=4, open/closed (952 cells) on a generated trajectory (consecutive relative rotation < pi); non-trivial: >= 2 windows and degree >= 3',
        'assumptions': ASSUME_ORACLE + ['AddressSanitizer build over an exact-size heap trajectory: reading anything but its elements is reported; ASAN hard_rss_limit_mb=4000 bounds runaway allocation (a harness process killed by it is reported as a violation of C17, whose statement includes termination); a shard that merely exceeds its wall-clock limit is inconclusive'],
        'stages': [
            {'src': 'C17.cpp', 'configs': ['SE2d', 'SO3d', 'SE3d', 'R3d', 'SE2f', 'SO3f'], 'tag': '-asan',
             'defs': ['-fsanitize=address,undefined', '-fno-sanitize-recover=undefined', '-fno-omit-frame-pointer'],
             'env': {'ASAN_OPTIONS': 'hard_rss_limit_mb=4000:detect_leaks=0:allocator_may_return_null=1'},
             'cases': {'quick': 160, 'thorough': 3000}, 'shards': {'quick': 2, 'thorough': 4}, 'timeout': {'quick': 900, 'thorough': 7200}, 'case_scale': {'SE3d': 0.5}, 'shrink_budget': 120},
            {'src': 'C17.cpp', 'configs': ['SE2d', 'SE3d'], 'tag': '-asan-ndebug',
             'defs': ['-DNDEBUG', '-fsanitize=address,undefined', '-fno-sanitize-recover=undefined', '-fno-omit-frame-pointer'],
             'env': {'ASAN_OPTIONS': 'hard_rss_limit_mb=4000:detect_leaks=0:allocator_may_return_null=1'},
             'cases': {'quick': 120, 'thorough': 1500}, 'shards': {'quick': 2, 'thorough': 2}, 'timeout': {'quick': 900, 'thorough': 7200}, 'case_scale': {'SE3d': 0.5}, 'shrink_budget': 120},
            {'kind': 'fuzz', 'tiers': ['thorough'], 'src': 'C17.cpp', 'configs': ['SE2d', 'SO3d', 'SE3d', 'R3d'], 'rc_tag': '-asanrc',
             'seconds': {'quick': 20, 'thorough': 600}, 'jobs': 4, 'max_len': 4096},
        ],
    },
    'C18': {
        'rule': 'valid elements with coordinates 1e-8..1e9, eps log-uniform 1e-12..1e-1 or the default, pairs Y = X (+) d with |d|_inf = eps*10^s, s in [-4,-1] u [1,4] (only where the rounding noise u*|coordinates| is <= 1e-2 of eps and of the distance), q/-q pairs, tangents (identical, zero vs tiny, scaled); non-trivial: coordinates >= 1e3, q/-q pair, or |s| = 1',
        'assumptions': ['"well below / well above" = at least one decade away from eps in every component; the distance clauses are evaluated only where the decision is meaningful (noise floor), reflexivity and the q/-q clause for every generated element'],
        'stages': [
            {'src': 'C18.cpp', 'configs': D_GROUPS + ['SE2f', 'SE3f', 'SGal3f'] + BUNDLES,
             'cases': {'quick': 8000, 'thorough': 400000}, 'shards': {'quick': 1, 'thorough': 2}},
        ],
    },
    'C11': {
        'rule': 'bundle layouts covering every group first/middle/last, repeated and single, differing DoF/RepSize/Dim/matrix sizes; per-element inputs of 1.3; group and tangent Random()/setRandom() replayed element-wise from the same srand state; non-trivial: >= 2 elements with different DoF and input non-identity in every element',
        'assumptions': ['offsets are recomputed by the harness as prefix sums of the documented per-group sizes (engine/vf_ref.cpp Spec), not read from manif traits',
                        'stand-alone element results are manif results themselves (differential within the library); their correctness is the subject of C01-C06',
                        'equality within 8u per coefficient (bit-identity recorded as a statistic), off-diagonal entries exactly +0.0 with NaN-prefilled outputs'],
        'stages': [
            {'src': 'C11.cpp', 'configs': {'quick': ALL_BUNDLES + ['B_SE3_SO2_R3_f'], 'thorough': ALL_BUNDLES + ['B_SE3_SO2_R3_f', 'B_7elems_d']},
             'cases': {'quick': 4000, 'thorough': 150000}, 'shards': {'quick': 1, 'thorough': 2}},
        ],
    },
    'C06': {
        'rule': 'tangent (theta up to pi-1e-6, strata of 1.3) x two elements x second tangent; non-trivial: theta != 0 and a linear component >= 1e-3',
        'assumptions': ASSUME_ORACLE,
        'stages': [
            {'src': 'C06.cpp', 'configs': D_GROUPS + ['SE2f', 'SE3f', 'SO3f', 'SE_2_3f', 'SGal3f', 'B_SE3_SO2_R3_f'] + BUNDLES,
             'cases': {'quick': 6000, 'thorough': 200000}, 'shards': {'quick': 1, 'thorough': 2},
             'case_scale': {'B_SGal3_SE2_SE23_SO3_R1_d': 0.15}},
        ],
    },
}
