"""C14 -- the const API of manif is safe to use concurrently.

Technique: generated thread programs (props/C14_prog.cpp, one fresh process per program so that the
first use of every function-local static of the library happens under contention) + ThreadSanitizer
as oracle + differential comparison of every per-thread result with a single-threaded evaluation.

Entry points used by lib/vfdriver.py:
    run(ctx, prop, stage, tier, res)      stage = {'kind': 'py', 'module': 'c14', 'fn': 'run', 'name': 'tsan', ...}
    replay(ctx, prop, stage, path)
Optional stage keys: 'src' (default C14_prog.cpp), 'launches' {'quick': 40, 'thorough': 600} (per compiler),
'compilers' {'quick': ['g++'], 'thorough': ['g++', 'clang++']}, 'jobs' (4), 'timeout' (120 s).

    python3 lib/c14.py --selftest [--tier quick|thorough] [--out DIR]
runs the check with a small stand-in ctx (repository from $VERIF_REPO, default /repo).
"""
import sys, os, json, hashlib, subprocess, time, shutil, glob
import concurrent.futures as cf

TSAN_OPTIONS = 'halt_on_error=1:exitcode=66:second_deadlock_stack=1'
BASE_FLAGS = ['-std=gnu++17', '-fsanitize=thread', '-O1', '-g', '-w']
# -fno-var-tracking: 10 s less g++ compile time; line tables / function names (all the TSan stacks need) are unaffected
EXTRA_FLAGS = {'g++': ['-fno-var-tracking'], 'clang++': []}
DEFAULT_LAUNCHES = {'quick': 40, 'thorough': 600}
DEFAULT_COMPILERS = {'quick': ['g++'], 'thorough': ['g++', 'clang++']}
MAX_REPLAY_FILES = 12          # per compiler; further failing launches are counted and noted
FULL_RERUNS_FOR = 3            # the first few violations are re-run 20 times, later ones 5 times

HERE = os.path.dirname(os.path.abspath(__file__))


# ------------------------------------------------------------------------------------------ build
def _source(ctx, stage):
    name = stage.get('src', 'C14_prog.cpp')
    for p in (os.path.join(ctx.root, 'props', name), os.path.join(HERE, '..', 'props', name)):
        if os.path.exists(p):
            return os.path.abspath(p)
    raise SystemExit('C14: source %s not found' % name)


def _includes(ctx):
    return ['-I/usr/include/eigen3', '-I' + os.path.join(ctx.repo, 'include'), '-I' + os.path.join(ctx.repo, 'external', 'tl')]


def _build_dir(ctx, src):
    h = hashlib.sha256()
    h.update(ctx.repo_hash().encode())
    with open(src, 'rb') as f:
        h.update(f.read())
    h.update(repr((BASE_FLAGS, sorted(EXTRA_FLAGS.items()))).encode())
    d = os.path.join(ctx.build_root, 'c14-' + h.hexdigest()[:16])
    os.makedirs(d, exist_ok=True)
    return d


def _prune(ctx, keep=3):
    try:
        ds = [p for p in glob.glob(os.path.join(ctx.build_root, 'c14-*')) if os.path.isdir(p)]
        ds.sort(key=os.path.getmtime)
        for p in ds[:-keep]:
            shutil.rmtree(p, ignore_errors=True)
    except OSError:
        pass


def build(ctx, stage, compiler):
    """-> (exe or None, log path or None, seconds, 'ok' | 'cached' | 'no-compiler' | 'failed')"""
    src = _source(ctx, stage)
    d = _build_dir(ctx, src)
    exe = os.path.join(d, 'C14_prog_' + compiler.replace('+', 'x'))
    if os.path.exists(exe):
        os.utime(d, None)
        return exe, None, 0.0, 'cached'
    if shutil.which(compiler) is None:
        return None, None, 0.0, 'no-compiler'
    t0 = time.time()
    tmp = exe + '.tmp%d' % os.getpid()
    cmd = [compiler] + BASE_FLAGS + EXTRA_FLAGS.get(compiler, []) + _includes(ctx) + [src, '-o', tmp, '-pthread']
    r = subprocess.run(cmd, stdout=subprocess.PIPE, stderr=subprocess.STDOUT, text=True)
    dt = time.time() - t0
    if r.returncode != 0:
        logp = exe + '.compile.log'
        with open(logp, 'w') as f:
            f.write(' '.join(cmd) + '\n' + r.stdout)
        try:
            os.remove(tmp)
        except OSError:
            pass
        return None, logp, dt, 'failed'
    os.replace(tmp, exe)
    return exe, None, dt, 'ok'


# ------------------------------------------------------------------------------------------ one launch
def launch(exe, seed, T, L, timeout=120):
    """fresh process; -> (verdict, rc, output); verdict in ok|race|mismatch|crash|timeout|inconclusive"""
    env = dict(os.environ)
    env['TSAN_OPTIONS'] = TSAN_OPTIONS
    out = ''
    for attempt in range(3):
        try:
            r = subprocess.run([exe, str(seed), str(T), str(L)], stdout=subprocess.PIPE, stderr=subprocess.STDOUT,
                               env=env, timeout=timeout, errors='replace')
        except subprocess.TimeoutExpired as e:
            o = e.stdout or ''
            if isinstance(o, bytes):
                o = o.decode('utf-8', 'replace')
            return 'timeout', 124, o
        rc, out = r.returncode, r.stdout
        if 'WARNING: ThreadSanitizer' in out or rc == 66:
            return 'race', rc, out
        if 'FATAL: ThreadSanitizer' in out or 'ThreadSanitizer: failed to' in out or 'ThreadSanitizer failed to allocate' in out:
            continue  # the sanitizer runtime could not start / ran out of memory (ASLR layout, resources): says nothing about manif
        if rc == 3:
            return 'mismatch', rc, out
        if rc == 0:
            return 'ok', rc, out
        return 'crash', rc, out  # signal (rc < 0) or any other abnormal exit of the generated program
    return 'inconclusive', rc, out


def _json_line(out):
    for line in reversed(out.splitlines()):
        line = line.strip()
        if line.startswith('{') and line.endswith('}'):
            try:
                return json.loads(line)
            except ValueError:
                return None
    return None


def _report_head(out, n=4000):
    """the sanitizer report from its first line on (the tail of a long report is thread-creation boilerplate)"""
    i = out.find('WARNING: ThreadSanitizer')
    if i < 0:
        i = out.find('MISMATCH')
    return out[i:i + n] if i >= 0 else ''


def _tsan_summary(out):
    kind, frames = '', []
    lines = out.splitlines()
    for i, l in enumerate(lines):
        if 'WARNING: ThreadSanitizer' in l:
            kind = l.strip()
            for m in lines[i + 1:i + 40]:
                m = m.strip()
                if not m and frames:
                    break  # end of the first stack
                if m.startswith('#') and (' manif::' in m or 'c14::exec' in m):
                    frames.append(m.split(' (')[0])
                if len(frames) >= 3:
                    break
            break
    if not kind:
        for l in lines:
            if l.startswith('MISMATCH'):
                return l.strip()
        return ''
    return kind + ((' at ' + ' <- '.join(frames)) if frames else '')


def _rerun(exe, seed, T, L, n, timeout, jobs):
    fails = tmo = 0
    with cf.ThreadPoolExecutor(max_workers=jobs) as ex:
        for verdict, rc, out in ex.map(lambda _: launch(exe, seed, T, L, timeout), range(n)):
            if verdict in ('race', 'mismatch', 'crash'):
                fails += 1
            elif verdict in ('timeout', 'inconclusive'):
                tmo += 1
    return fails, tmo


def plan(ctx, prop, stage, compiler, n):
    tag = stage.get('name', 'tsan')
    jobs = []
    for i in range(n):
        seed = ctx.derive_seed(prop, tag, compiler, i, 'seed')
        T = 2 + ctx.derive_seed(prop, tag, compiler, i, 'T') % 15          # 2..16
        L = 20 + ctx.derive_seed(prop, tag, compiler, i, 'L') % 181        # 20..200
        jobs.append((seed, T, L))
    return jobs


# ------------------------------------------------------------------------------------------ driver entry points
def run(ctx, prop, stage, tier, res):
    name = stage.get('name', 'tsan')
    n = stage.get('launches', DEFAULT_LAUNCHES).get(tier, DEFAULT_LAUNCHES['quick'])
    compilers = stage.get('compilers', DEFAULT_COMPILERS).get(tier, ['g++'])
    njobs = int(stage.get('jobs', 4))
    timeout = int(stage.get('timeout', 120))
    for k in ('violations', 'notes', 'extra_samples'):
        res.setdefault(k, [])
    for k in ('extra_evaluations', 'extra_nontrivial', 'replayed'):
        res.setdefault(k, 0)
    repdir = os.path.join(ctx.root, 'replays', prop)

    # ---- build (compilers in parallel)
    t0 = time.time()
    exes = {}
    with cf.ThreadPoolExecutor(max_workers=len(compilers)) as ex:
        for comp, (exe, logp, dt, how) in zip(compilers, ex.map(lambda c: build(ctx, stage, c), compilers)):
            if how == 'no-compiler':
                res['notes'].append('%s not installed: its ThreadSanitizer runtime was not exercised' % comp)
            elif how == 'failed':
                os.makedirs(repdir, exist_ok=True)
                dst = os.path.join(repdir, 'compile-%s.log' % comp.replace('+', 'x'))
                shutil.copy(logp, dst)
                res['violations'].append({'replay': dst, 'why': 'C14_prog.cpp does not compile with %s -fsanitize=thread against %s' % (comp, ctx.repo)})
            else:
                exes[comp] = exe
    res['build_s'] = res.get('build_s', 0) + time.time() - t0

    cov = {'launches_per_compiler': {}, 'ops_executed': 0, 'contended_launches': 0, 'contended_helper_first_uses': 0,
           'timeouts': 0, 'sanitizer_inconclusive': 0, 'failing_launches': 0, 'threads_histogram': {}, 'mode_histogram': {},
           'tsan_options': TSAN_OPTIONS, 'flags': ' '.join(BASE_FLAGS)}
    nontrivial = set()
    samples = []

    # ---- regression replays (must pass)
    for path in sorted(glob.glob(os.path.join(ctx.root, 'replays', 'regress', prop, '*.json'))):
        try:
            j = json.load(open(path))
        except Exception:
            continue
        if j.get('stage', name) != name or j.get('compiler', 'g++') not in exes:
            continue
        res['replayed'] += 1
        fails, _ = _rerun(exes[j.get('compiler', 'g++')], j['seed'], j['threads'], j['length'], 5, timeout, njobs)
        if fails:
            res['violations'].append({'replay': path, 'why': 'regression replay fails in %d of 5 launches' % fails})

    # ---- generated launches
    for comp in compilers:
        if comp not in exes:
            continue
        exe = exes[comp]
        jobs = plan(ctx, prop, stage, comp, n)
        nfiles = nviol = 0
        done = 0
        with cf.ThreadPoolExecutor(max_workers=njobs) as ex:
            for (seed, T, L), (verdict, rc, out) in zip(jobs, ex.map(lambda j: launch(exe, j[0], j[1], j[2], timeout), jobs)):
                done += 1
                res['extra_evaluations'] += 1
                cov['threads_histogram'][str(T)] = cov['threads_histogram'].get(str(T), 0) + 1
                if verdict == 'timeout':
                    cov['timeouts'] += 1
                    res['notes'].append('%s launch seed=%d T=%d L=%d timed out after %d s (inconclusive)' % (comp, seed, T, L, timeout))
                    continue
                if verdict == 'inconclusive':
                    cov['sanitizer_inconclusive'] += 1
                    continue
                j = _json_line(out)
                if j:
                    cov['ops_executed'] += int(j.get('ops', 0))
                    cov['mode_histogram'][str(j.get('mode'))] = cov['mode_histogram'].get(str(j.get('mode')), 0) + 1
                    if j.get('contended', 0) >= 1:
                        nontrivial.add((seed, T, L))
                        cov['contended_helper_first_uses'] += int(j['contended'])
                    if sum(1 for x in samples if x.startswith(comp + ' ')) < 3 and (done % max(1, n // 6) == 0 or j.get('contended', 0) >= 1):
                        samples.append(comp + ' ' + json.dumps(j, sort_keys=True))
                if verdict == 'ok':
                    continue
                # ---- violation
                cov['failing_launches'] += 1
                nviol += 1
                if nfiles >= MAX_REPLAY_FILES:
                    continue
                nfiles += 1
                nre = 20 if nviol <= FULL_RERUNS_FOR else 5
                fails, tmo = _rerun(exe, seed, T, L, nre, timeout, njobs)
                os.makedirs(repdir, exist_ok=True)
                path = os.path.join(repdir, 'race-%d.json' % seed)
                rep = {'property': prop, 'stage': name, 'seed': seed, 'threads': T, 'length': L, 'compiler': comp,
                       'kind': verdict, 'exit_status': rc, 'reruns': nre, 'reproduced': fails, 'reruns_inconclusive': tmo,
                       'tsan_options': TSAN_OPTIONS, 'report_head': _report_head(out), 'output': out[-4000:]}
                with open(path, 'w') as f:
                    json.dump(rep, f, indent=1)
                what = {'race': 'ThreadSanitizer report', 'mismatch': 'threaded result differs from the single-threaded evaluation',
                        'crash': 'generated program died with status %d' % rc}[verdict]
                why = '%s (%s, seed=%d T=%d L=%d): %s; reproduced in %d of %d further launches' % (
                    what, comp, seed, T, L, _tsan_summary(out) or out[-300:].strip(), fails, nre)
                if fails == 0:
                    why += ' -- seen once only: schedule dependent, but a reported data race is a defect however rarely it shows'
                res['violations'].append({'replay': path, 'why': why})
        if nviol > nfiles:
            res['notes'].append('%s: %d further failing launches not written as replay files (cap %d)' % (comp, nviol - nfiles, MAX_REPLAY_FILES))
        cov['launches_per_compiler'][comp] = done

    cov['contended_launches'] = len(nontrivial)
    res['extra_nontrivial'] += len(nontrivial)
    res['extra_samples'] += samples
    res.setdefault('extra_cov', {}).update(cov)
    _prune(ctx)


def replay(ctx, prop, stage, path):
    j = json.load(open(path))
    comp = j.get('compiler', 'g++')
    exe, logp, dt, how = build(ctx, stage, comp)
    if not exe:
        if logp:
            print(open(logp).read()[-3000:])
            print('VIOLATION property=%s replay=%s' % (prop, path))
            return 1
        print('%s not available: cannot replay %s' % (comp, path))
        return 2
    timeout = int(stage.get('timeout', 120))
    njobs = int(stage.get('jobs', 4))
    seed, T, L = j['seed'], j['threads'], j['length']
    fails, tmo, shown = 0, 0, False
    with cf.ThreadPoolExecutor(max_workers=njobs) as ex:
        for verdict, rc, out in ex.map(lambda _: launch(exe, seed, T, L, timeout), range(20)):
            if verdict in ('race', 'mismatch', 'crash'):
                fails += 1
                if not shown:
                    shown = True
                    print(_report_head(out) or out[-4000:])
            elif verdict in ('timeout', 'inconclusive'):
                tmo += 1
    print('C14 replay seed=%d T=%d L=%d compiler=%s: %d of 20 launches fail (%d inconclusive)' % (seed, T, L, comp, fails, tmo))
    if fails:
        print('VIOLATION property=%s replay=%s' % (prop, path))
        return 1
    return 0


# ------------------------------------------------------------------------------------------ self test
class _FakeCtx:
    def __init__(self, out=None):
        self.root = out or os.path.abspath(os.path.join(HERE, '..'))
        self.repo = os.environ.get('VERIF_REPO', '/repo')
        self.seed = int(os.environ.get('VERIF_SEED', '1') or '1') or 1
        self.build_root = os.path.join(self.root, 'build')

    def say(self, *a):
        print(*a, flush=True)

    def derive_seed(self, *parts):
        h = hashlib.sha256(('%d|' % self.seed + '|'.join(str(p) for p in parts)).encode()).digest()
        return int.from_bytes(h[:7], 'big') or 1

    def repo_hash(self):  # same digest as vfdriver.Ctx.repo_hash, so that both share the build cache
        ps = []
        for root in (os.path.join(self.repo, 'include'), os.path.join(self.repo, 'external', 'tl')):
            for d, _, fs in os.walk(root):
                ps += [os.path.join(d, f) for f in fs]
        h = hashlib.sha256()
        for p in sorted(ps):
            h.update(p.encode())
            with open(p, 'rb') as f:
                h.update(f.read())
        return h.hexdigest()[:16]


def _selftest(argv):
    tier = argv[argv.index('--tier') + 1] if '--tier' in argv else 'quick'
    out = argv[argv.index('--out') + 1] if '--out' in argv else None
    ctx = _FakeCtx(out)
    stage = {'kind': 'py', 'module': 'c14', 'fn': 'run', 'name': 'tsan'}
    if '--launches' in argv:
        stage['launches'] = {tier: int(argv[argv.index('--launches') + 1])}
    res = {'frags': [], 'violations': [], 'known_lines': [], 'notes': [], 'replayed': 0,
           'extra_evaluations': 0, 'extra_nontrivial': 0, 'extra_samples': []}
    t0 = time.time()
    run(ctx, 'C14', stage, tier, res)
    wall = time.time() - t0
    cov = res.get('extra_cov', {})
    print('C14 selftest repo=%s tier=%s seed=%d' % (ctx.repo, tier, ctx.seed))
    print('  wall %.1f s (build %.1f s)' % (wall, res.get('build_s', 0)))
    print('  launches %d  contended (distinct programs) %d  ops %d  failing %d  timeouts %d  sanitizer-inconclusive %d' % (
        res['extra_evaluations'], res['extra_nontrivial'], cov.get('ops_executed', 0), cov.get('failing_launches', 0),
        cov.get('timeouts', 0), cov.get('sanitizer_inconclusive', 0)))
    print('  per compiler %s  threads %s  modes %s' % (cov.get('launches_per_compiler'), cov.get('threads_histogram'), cov.get('mode_histogram')))
    for s in res['extra_samples'][:4]:
        print('  sample', s)
    for nline in res['notes']:
        print('  note:', nline)
    for v in res['violations']:
        print('VIOLATION property=C14 replay=%s' % v['replay'])
        print('  ' + v['why'][:600])
    if res['violations'] and '--replay-first' in argv:
        return replay(ctx, 'C14', stage, res['violations'][0]['replay'])
    return 1 if res['violations'] else 0


if __name__ == '__main__':
    if '--selftest' in sys.argv:
        sys.exit(_selftest(sys.argv[1:]))
    print(__doc__)
    sys.exit(2)
