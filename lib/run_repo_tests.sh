#!/bin/sh
# run the repository's own test-suite on a given commit of /repo in a scratch worktree (removed afterwards)
# usage: run_repo_tests.sh <commit> <logfile>
set -u
C=$(git -C /repo rev-parse ${1:-HEAD}); LOG=${2:-/tmp/repo_tests.log}
WT=$(mktemp -d /tmp/mt-XXXXXX)
{
git -C /repo worktree add --detach "$WT" "$C" >/dev/null 2>&1 || { echo "worktree failed"; exit 2; }
cmake -G Ninja -S "$WT" -B "$WT/_build" -DCMAKE_BUILD_TYPE=RelWithDebInfo -DBUILD_TESTING=ON -DCMAKE_CXX_FLAGS=-Wno-error -DFETCHCONTENT_SOURCE_DIR_GTEST=/usr/src/googletest -DFETCHCONTENT_FULLY_DISCONNECTED=ON >"$WT/cfg.log" 2>&1 || { tail -20 "$WT/cfg.log"; }
nice -n 5 cmake --build "$WT/_build" -j ${JOBS:-10} >"$WT/build.log" 2>&1; echo "build rc=$?"; tail -3 "$WT/build.log"
ctest --test-dir "$WT/_build" -j8 --timeout 900 2>&1 | tail -8
echo "commit $(git -C /repo rev-parse --short $C) done"
} >"$LOG" 2>&1
git -C /repo worktree remove --force "$WT" >/dev/null 2>&1
rm -rf "$WT"
