#!/bin/sh
# Offline setup: checks the toolchain and pre-builds the repository-independent engine library.
set -e
cd "$(dirname "$0")"
command -v g++ >/dev/null || { echo "g++ missing"; exit 1; }
command -v clang++ >/dev/null || { echo "clang++ missing"; exit 1; }
test -f /usr/include/rapidcheck.h || { echo "rapidcheck missing"; exit 1; }
test -d /usr/include/eigen3 || { echo "eigen3 missing"; exit 1; }
./check --build-engine
echo "setup ok"
