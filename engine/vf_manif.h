// vf_manif.h -- glue between manif types and the reference model (property TUs only).
#pragma once
#ifndef VF_CFG
#error "VF_CFG must be defined"
#endif
#if VF_CFG >= 41 && VF_CFG < 60
#include "vf_rat_manif.h"
#define VF_SCALAR_RAT 1
#endif
#if VF_CFG >= 61 && VF_CFG < 80
#include "vf_dual_manif.h"
#define VF_SCALAR_DUAL 1
#endif
#include <manif/manif.h>
#include <manif/Bundle.h>

#include <cmath>
#include <sstream>
#include <string>

#include "vf_case.h"
#include "vf_gen.h"
#include "vf_ref.h"

namespace vf {

template <class G> struct SpecOf;
template <class S> struct SpecOf<manif::SO2<S>> { static Spec get() { return spec_so2(); } };
template <class S> struct SpecOf<manif::SE2<S>> { static Spec get() { return spec_se2(); } };
template <class S> struct SpecOf<manif::SO3<S>> { static Spec get() { return spec_so3(); } };
template <class S> struct SpecOf<manif::SE3<S>> { static Spec get() { return spec_se3(); } };
template <class S> struct SpecOf<manif::SE_2_3<S>> { static Spec get() { return spec_se23(); } };
template <class S> struct SpecOf<manif::SGal3<S>> { static Spec get() { return spec_sgal3(); } };
template <class S, unsigned int N> struct SpecOf<manif::Rn<S, N>> { static Spec get() { return spec_rn((int)N); } };
template <class S, template <typename> class... T> struct SpecOf<manif::Bundle<S, T...>> {
  static Spec get() {
    std::vector<Spec> parts = {SpecOf<T<S>>::get()...};
    std::string nm = "Bundle<";
    for (size_t i = 0; i < parts.size(); ++i) nm += (i ? "," : "") + parts[i].name;
    return spec_bundle(nm + ">", parts);
  }
};

template <class D> VecL toVL(const Eigen::MatrixBase<D>& v) {
  VecL r(v.size());
  for (int i = 0; i < v.size(); ++i) r(i) = (LD)v(i);
  return r;
}
template <class D> MatL toML(const Eigen::MatrixBase<D>& m) {
  MatL r(m.rows(), m.cols());
  for (int i = 0; i < m.rows(); ++i) for (int j = 0; j < m.cols(); ++j) r(i, j) = (LD)m(i, j);
  return r;
}
inline VecL vecL(const double* p, int n) { VecL r(n); for (int i = 0; i < n; ++i) r(i) = p[i]; return r; }

template <class G> G make_elem(const double* p) {
  typename G::DataType d;
  for (int i = 0; i < G::RepSize; ++i) d(i) = (typename G::Scalar)p[i];
  return G(d);
}
template <class G> typename G::Tangent make_tan(const double* p) {
  typename G::Tangent::DataType d;
  for (int i = 0; i < G::DoF; ++i) d(i) = (typename G::Scalar)p[i];
  return typename G::Tangent(d);
}
template <class G> typename G::Vector make_pt(const double* p) {
  typename G::Vector d;
  for (int i = 0; i < G::Dim; ++i) d(i) = (typename G::Scalar)p[i];
  return d;
}

template <class D> bool all_finite(const Eigen::MatrixBase<D>& m) {
  for (int i = 0; i < m.rows(); ++i) for (int j = 0; j < m.cols(); ++j) if (!std::isfinite((double)m(i, j))) return false;
  return true;
}

// max | |rot coeffs| - 1 | over the elements of the group element
inline LD rot_norm_dev(const Spec& s, const VecL& c) {
  LD w = 0;
  for (size_t b = 0; b < s.e.size(); ++b) {
    const Elem& e = s.e[b];
    if (e.k == K_RN) continue;
    LD n2 = 0;
    for (int i = 0; i < e.nrot(); ++i) { LD x = c(s.rep_off((int)b) + e.rot0() + i); n2 += x * x; }
    LD d = fabsl(sqrtl(n2) - 1);
    if (!(d == d)) return INFINITY;
    if (d > w) w = d;
  }
  return w;
}

// largest rotation magnitude / linear magnitude of a tangent, per spec
inline LD tan_theta_max(const Spec& s, const VecL& t) {
  LD w = 0;
  for (size_t b = 0; b < s.e.size(); ++b) {
    const Elem& e = s.e[b];
    if (e.k == K_RN) continue;
    LD n2 = 0;
    for (int i = 0; i < e.nang(); ++i) { LD x = t(s.dof_off((int)b) + e.ang0() + i); n2 += x * x; }
    w = std::max(w, sqrtl(n2));
  }
  return w;
}
inline LD tan_theta_min(const Spec& s, const VecL& t) {
  LD w = INFINITY;
  for (size_t b = 0; b < s.e.size(); ++b) {
    const Elem& e = s.e[b];
    if (e.k == K_RN) continue;
    LD n2 = 0;
    for (int i = 0; i < e.nang(); ++i) { LD x = t(s.dof_off((int)b) + e.ang0() + i); n2 += x * x; }
    w = std::min(w, sqrtl(n2));
  }
  return w;
}
inline LD tan_lin_max(const Spec& s, const VecL& t) {
  LD w = 0;
  for (size_t b = 0; b < s.e.size(); ++b) {
    const Elem& e = s.e[b];
    for (int i = 0; i < e.dof(); ++i) {
      bool is_ang = e.k != K_RN && i >= e.ang0() && i < e.ang0() + e.nang();
      if (!is_ang) w = std::max(w, fabsl(t(s.dof_off((int)b) + i)));
    }
  }
  return w;
}
inline LD coeff_lin_max(const Spec& s, const VecL& c) {
  LD w = 0;
  for (size_t b = 0; b < s.e.size(); ++b) {
    const Elem& e = s.e[b];
    for (int i = 0; i < e.rep(); ++i) {
      bool is_rot = e.k != K_RN && i >= e.rot0() && i < e.rot0() + e.nrot();
      if (!is_rot) w = std::max(w, fabsl(c(s.rep_off((int)b) + i)));
    }
  }
  return w;
}
// min over rotation-bearing elements of the quaternion w (or complex real part): < 0 => "other hemisphere"
inline LD coeff_w_min(const Spec& s, const VecL& c) {
  LD w = INFINITY;
  for (size_t b = 0; b < s.e.size(); ++b) {
    const Elem& e = s.e[b];
    if (e.k == K_RN) continue;
    int o = s.rep_off((int)b) + e.rot0();
    w = std::min(w, e.nrot() == 4 ? c(o + 3) : c(o));
  }
  return w;
}

// block-relative Jacobian comparison on the tangent partition (lin | ang | time) of each element:
// for each (row-part, col-part) block: max|dJ| / max(1, max|Jref| on the block)
// extra_scale (optional, same shape): entrywise magnitude bound whose block maximum joins the scale; used
// for product identities A*B = C where the natural rounding scale is |A|*|B|, not |C|.
inline LD jac_block_err(const Spec& s, const MatL& got, const MatL& want, bool rows_are_tangent = true,
                        bool cols_are_tangent = true, const MatL* extra_scale = nullptr) {
  auto parts = [&](bool tangent, int total) {
    std::vector<int> id(total, 0);
    if (!tangent) return id;
    int pid = 0;
    for (size_t b = 0; b < s.e.size(); ++b) {
      const Elem& e = s.e[b];
      for (int i = 0; i < e.dof(); ++i) {
        bool is_ang = e.k != K_RN && i >= e.ang0() && i < e.ang0() + e.nang();
        bool is_time = e.k == K_SGAL3 && i == 9;
        int sub = is_ang ? 1 : (is_time ? 2 : (e.k == K_SE23 && i >= 6 ? 3 : (e.k == K_SGAL3 && i >= 3 ? 3 : 0)));
        id[s.dof_off((int)b) + i] = pid + sub;
      }
      pid += 4;
    }
    return id;
  };
  std::vector<int> rid = parts(rows_are_tangent, (int)got.rows()), cid = parts(cols_are_tangent, (int)got.cols());
  std::map<std::pair<int, int>, std::pair<LD, LD>> blk;  // (maxdiff, maxref)
  for (int r = 0; r < got.rows(); ++r) for (int c = 0; c < got.cols(); ++c) {
    LD d = fabsl(got(r, c) - want(r, c));
    if (!(d == d)) return INFINITY;
    auto& b = blk[{rid[r], cid[c]}];
    b.first = std::max(b.first, d);
    b.second = std::max(b.second, fabsl(want(r, c)));
    if (extra_scale) b.second = std::max(b.second, fabsl((*extra_scale)(r, c)));
  }
  LD worst = 0;
  for (auto& kv : blk) worst = std::max(worst, kv.second.first / std::max<LD>(1, kv.second.second));
  return worst;
}

// every entry replaced by the largest magnitude of its block of the tangent partition (lin | ang | time | lin2 per element):
// the scale against which block-relative Jacobian errors are measured
inline MatL block_max_matrix(const Spec& s, const MatL& J) {
  std::vector<int> id(s.dof(), 0);
  int pid = 0;
  for (size_t b = 0; b < s.e.size(); ++b) {
    const Elem& e = s.e[b];
    for (int i = 0; i < e.dof(); ++i) {
      bool is_ang = e.k != K_RN && i >= e.ang0() && i < e.ang0() + e.nang();
      bool is_time = e.k == K_SGAL3 && i == 9;
      int sub = is_ang ? 1 : (is_time ? 2 : (e.k == K_SE23 && i >= 6 ? 3 : (e.k == K_SGAL3 && i >= 3 ? 3 : 0)));
      id[s.dof_off((int)b) + i] = pid + sub;
    }
    pid += 4;
  }
  std::map<std::pair<int, int>, LD> mx;
  for (int r = 0; r < J.rows(); ++r) for (int c = 0; c < J.cols(); ++c) { LD& m = mx[{id[r], id[c]}]; m = std::max(m, fabsl(J(r, c))); }
  MatL B(J.rows(), J.cols());
  for (int r = 0; r < J.rows(); ++r) for (int c = 0; c < J.cols(); ++c) B(r, c) = mx[{id[r], id[c]}];
  return B;
}

// D x D matrix holding S[b] on the rows of element b that belong to linear (translation-like) tangent
// components, 0 elsewhere: the rounding scale of quantities such as skew(p - t v) R inside an adjoint.
inline MatL lin_row_scale(const Spec& s, const std::vector<LD>& S) {
  MatL m = MatL::Zero(s.dof(), s.dof());
  for (size_t b = 0; b < s.e.size(); ++b) {
    const Elem& e = s.e[b];
    int o = s.dof_off((int)b);
    for (int i = 0; i < e.dof(); ++i) {
      bool is_ang = e.k != K_RN && i >= e.ang0() && i < e.ang0() + e.nang();
      bool is_time = e.k == K_SGAL3 && i == 9;
      if (is_ang || is_time) continue;
      for (int j = 0; j < e.dof(); ++j) m(o + i, o + j) = S[b];
    }
  }
  return m;
}

// residual of a product identity A*B = want, block-relative to max(1, |want|, |A|*|B|)
inline LD prod_block_err(const Spec& s, const MatL& A, const MatL& B, const MatL& want) {
  const MatL P = A * B;
  const MatL sc = A.cwiseAbs() * B.cwiseAbs();
  return jac_block_err(s, P, want, true, true, &sc);
}

template <class T> std::string fmt(const T& x) { std::ostringstream s; s.precision(6); s << x; return s.str(); }

}  // namespace vf

// ---- configuration selection --------------------------------------------------------
#ifndef VF_CFG
#error "VF_CFG must be defined"
#endif
namespace vfcfg {
using namespace manif;
#if VF_CFG == 1
using GroupT = SO2d; static const char* kName = "SO2d";
#elif VF_CFG == 2
using GroupT = SE2d; static const char* kName = "SE2d";
#elif VF_CFG == 3
using GroupT = SO3d; static const char* kName = "SO3d";
#elif VF_CFG == 4
using GroupT = SE3d; static const char* kName = "SE3d";
#elif VF_CFG == 5
using GroupT = SE_2_3d; static const char* kName = "SE_2_3d";
#elif VF_CFG == 6
using GroupT = SGal3d; static const char* kName = "SGal3d";
#elif VF_CFG == 7
using GroupT = R1d; static const char* kName = "R1d";
#elif VF_CFG == 8
using GroupT = R3d; static const char* kName = "R3d";
#elif VF_CFG == 9
using GroupT = R7d; static const char* kName = "R7d";
#elif VF_CFG == 11
using GroupT = SO2f; static const char* kName = "SO2f";
#elif VF_CFG == 12
using GroupT = SE2f; static const char* kName = "SE2f";
#elif VF_CFG == 13
using GroupT = SO3f; static const char* kName = "SO3f";
#elif VF_CFG == 14
using GroupT = SE3f; static const char* kName = "SE3f";
#elif VF_CFG == 15
using GroupT = SE_2_3f; static const char* kName = "SE_2_3f";
#elif VF_CFG == 16
using GroupT = SGal3f; static const char* kName = "SGal3f";
#elif VF_CFG == 18
using GroupT = R3f; static const char* kName = "R3f";
#elif VF_CFG == 21
using GroupT = Bundle<double, SE3, SO2, R3>; static const char* kName = "B_SE3_SO2_R3_d";
#elif VF_CFG == 22
using GroupT = Bundle<double, SGal3, SE2, SE_2_3, SO3, R1>; static const char* kName = "B_SGal3_SE2_SE23_SO3_R1_d";
#elif VF_CFG == 23
using GroupT = Bundle<double, R2, SO3, SO3, SE2>; static const char* kName = "B_R2_SO3_SO3_SE2_d";
#elif VF_CFG == 24
using GroupT = Bundle<double, SE_2_3, SGal3>; static const char* kName = "B_SE23_SGal3_d";
#elif VF_CFG == 25
using GroupT = Bundle<double, SO2>; static const char* kName = "B_SO2_d";
#elif VF_CFG == 26
using GroupT = Bundle<double, R9>; static const char* kName = "B_R9_d";
#elif VF_CFG == 27
using GroupT = Bundle<double, SE2, SE2, SE2>; static const char* kName = "B_SE2x3_d";
#elif VF_CFG == 28
using GroupT = Bundle<double, SO2, SGal3, SO2>; static const char* kName = "B_SO2_SGal3_SO2_d";
#elif VF_CFG == 29
using GroupT = Bundle<double, SO3, R7, SO2, SE3, SE2, SGal3, SE_2_3>; static const char* kName = "B_7elems_d";
#elif VF_CFG == 31
using GroupT = Bundle<float, SE3, SO2, R3>; static const char* kName = "B_SE3_SO2_R3_f";
#elif VF_CFG == 41
using GroupT = SO2<vf::Rat>; static const char* kName = "SO2r";
#elif VF_CFG == 42
using GroupT = SE2<vf::Rat>; static const char* kName = "SE2r";
#elif VF_CFG == 43
using GroupT = SO3<vf::Rat>; static const char* kName = "SO3r";
#elif VF_CFG == 44
using GroupT = SE3<vf::Rat>; static const char* kName = "SE3r";
#elif VF_CFG == 45
using GroupT = SE_2_3<vf::Rat>; static const char* kName = "SE_2_3r";
#elif VF_CFG == 46
using GroupT = SGal3<vf::Rat>; static const char* kName = "SGal3r";
#elif VF_CFG == 47
using GroupT = R3<vf::Rat>; static const char* kName = "R3r";
#elif VF_CFG == 48
using GroupT = Bundle<vf::Rat, SE3, SO2, R3, SE2, SE_2_3>; static const char* kName = "B_SE3_SO2_R3_SE2_SE23_r";
#elif VF_CFG == 49
using GroupT = Bundle<vf::Rat, SGal3, SO3>; static const char* kName = "B_SGal3_SO3_r";
#elif VF_CFG == 61
using GroupT = SO2<vf::Dual<1>>; static const char* kName = "SO2j";
#elif VF_CFG == 62
using GroupT = SE2<vf::Dual<3>>; static const char* kName = "SE2j";
#elif VF_CFG == 63
using GroupT = SO3<vf::Dual<3>>; static const char* kName = "SO3j";
#elif VF_CFG == 64
using GroupT = SE3<vf::Dual<6>>; static const char* kName = "SE3j";
#elif VF_CFG == 65
using GroupT = SE_2_3<vf::Dual<9>>; static const char* kName = "SE_2_3j";
#elif VF_CFG == 66
using GroupT = SGal3<vf::Dual<10>>; static const char* kName = "SGal3j";
#elif VF_CFG == 67
using GroupT = R3<vf::Dual<3>>; static const char* kName = "R3j";
#elif VF_CFG == 68
using GroupT = Bundle<vf::Dual<10>, SE3, SO2, R3>; static const char* kName = "B_SE3_SO2_R3_j";
#else
#error "unknown VF_CFG"
#endif
using Scalar = typename GroupT::Scalar;
using TangentT = typename GroupT::Tangent;
static constexpr bool kIsFloat = std::is_same<Scalar, float>::value;
static constexpr double kU = kIsFloat ? 5.9604644775390625e-08 : 1.1102230246251565e-16;  // unit roundoff
static constexpr double kValTol = 4096 * kU;                                             // 2^12 u
static constexpr double kJacTol = kIsFloat ? 2e-3 : 1e-6;
}  // namespace vfcfg

#define VF_STD_PROPERTY(id, rule)                                  \
  namespace vfp {                                                  \
  const char* property_id() { return id; }                         \
  const char* config_name() { return vfcfg::kName; }               \
  const char* nontrivial_rule() { return rule; }                   \
  vf::Spec spec() { return vf::SpecOf<vfcfg::GroupT>::get(); }     \
  }
