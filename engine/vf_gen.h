// vf_gen.h -- stratified generators.  The rapidcheck generators (vf_gen.cpp) and
// the libFuzzer byte decoders (vf_fuzz.h) both build cases through the same
// "chooser" interface so that a rapidcheck counter-example and a fuzzer crash
// file decode to the same Case type and replay through one code path.
#pragma once
#include <cstdint>
#include "vf_case.h"

namespace vf {

// source of choices: rapidcheck (shrinkable) or fuzzer bytes
struct Chooser {
  virtual ~Chooser() {}
  virtual int64_t range(int64_t lo, int64_t hi) = 0;  // inclusive
};

Case build_case(Chooser& ch, const Spec& s, const Shape& sh, int size /*0..100*/);

// individual pieces (exposed for harnesses with special needs)
double gen_magnitude(Chooser& ch, int lo_exp, int hi_exp);
double gen_theta(Chooser& ch, TanProfile tp, bool is_float);
void gen_tangent(Chooser& ch, const Spec& s, TanProfile tp, bool is_float, std::vector<double>& out);
void gen_element(Chooser& ch, const Spec& s, ElemProfile ep, bool is_float, std::vector<double>& out);
void gen_point(Chooser& ch, int dim, bool is_float, std::vector<double>& out);
double gen_scalar(Chooser& ch, ScalarKind k, bool is_float);

// stratum label of a rotation magnitude (used by harnesses for the evidence histogram)
const char* theta_stratum(double theta, bool is_float);
const char* mag_decade(double x);

}  // namespace vf
