// vf_rat.h -- exact rational scalar with a sticky "inexact" bit.
// + - * / abs and comparisons are exact; sqrt is exact on perfect squares; sin/cos/atan2/...
// are exact only at 0 and otherwise return a 53-bit approximation AND set the inexact bit,
// which every later result inherits.  A value whose inexact bit is clear was computed exactly.
#pragma once
#include <boost/multiprecision/cpp_int.hpp>
#include <Eigen/Core>
#include <cmath>
#include <limits>
#include <ostream>

namespace vf { struct Rat; }
namespace std {
template <> struct numeric_limits<vf::Rat> {
  static const bool is_specialized = true;
  static const bool is_signed = true, is_integer = false, is_exact = true, has_infinity = false, has_quiet_NaN = false;
  static const int digits = 1000, digits10 = 300, max_digits10 = 300;
  static const int radix = 2, min_exponent = 0, max_exponent = 0, min_exponent10 = 0, max_exponent10 = 0;
  static const bool has_signaling_NaN = false, has_denorm_loss = false, is_iec559 = false, is_bounded = false, is_modulo = false,
                    traps = false, tinyness_before = false;
  static const float_denorm_style has_denorm = denorm_absent;
  static const float_round_style round_style = round_toward_zero;
  static vf::Rat epsilon();
  static vf::Rat min();
  static vf::Rat max();
  static vf::Rat lowest();
  static vf::Rat infinity();
  static vf::Rat quiet_NaN();
};
}  // namespace std

namespace vf {

using BigQ = boost::multiprecision::cpp_rational;
using BigZ = boost::multiprecision::cpp_int;

struct Rat {
  BigQ v;
  bool inexact = false;
  Rat() : v(0) {}
  Rat(double d) : v(0) { if (std::isfinite(d)) v = BigQ(d); else inexact = true; }
  Rat(float d) : Rat((double)d) {}
  Rat(int i) : v(i) {}
  Rat(long i) : v(i) {}
  Rat(long long i) : v(i) {}
  Rat(unsigned i) : v(i) {}
  Rat(unsigned long i) : v(i) {}
  explicit Rat(const BigQ& q, bool ix = false) : v(q), inexact(ix) {}
  double d() const { return v.convert_to<double>(); }
  explicit operator double() const { return d(); }
  explicit operator long double() const { return v.convert_to<long double>(); }
  explicit operator float() const { return (float)d(); }
  explicit operator int() const { return (int)d(); }
  explicit operator long() const { return (long)d(); }
  Rat& operator+=(const Rat& o) { v += o.v; inexact |= o.inexact; return *this; }
  Rat& operator-=(const Rat& o) { v -= o.v; inexact |= o.inexact; return *this; }
  Rat& operator*=(const Rat& o) { v *= o.v; inexact |= o.inexact; return *this; }
  Rat& operator/=(const Rat& o) {
    if (o.v == 0) { inexact = true; v = 0; return *this; }   // division by zero: poisoned
    v /= o.v; inexact |= o.inexact; return *this;
  }
  Rat operator-() const { return Rat(BigQ(-v), inexact); }
  Rat operator+() const { return *this; }
};
inline Rat operator+(Rat a, const Rat& b) { a += b; return a; }
inline Rat operator-(Rat a, const Rat& b) { a -= b; return a; }
inline Rat operator*(Rat a, const Rat& b) { a *= b; return a; }
inline Rat operator/(Rat a, const Rat& b) { a /= b; return a; }
#define VF_RAT_MIXED(T)                                                   \
  inline Rat operator+(const Rat& a, T b) { return a + Rat(b); }          \
  inline Rat operator+(T a, const Rat& b) { return Rat(a) + b; }          \
  inline Rat operator-(const Rat& a, T b) { return a - Rat(b); }          \
  inline Rat operator-(T a, const Rat& b) { return Rat(a) - b; }          \
  inline Rat operator*(const Rat& a, T b) { return a * Rat(b); }          \
  inline Rat operator*(T a, const Rat& b) { return Rat(a) * b; }          \
  inline Rat operator/(const Rat& a, T b) { return a / Rat(b); }          \
  inline Rat operator/(T a, const Rat& b) { return Rat(a) / b; }          \
  inline bool operator<(const Rat& a, T b) { return a.v < Rat(b).v; }     \
  inline bool operator<(T a, const Rat& b) { return Rat(a).v < b.v; }     \
  inline bool operator>(const Rat& a, T b) { return a.v > Rat(b).v; }     \
  inline bool operator>(T a, const Rat& b) { return Rat(a).v > b.v; }     \
  inline bool operator<=(const Rat& a, T b) { return a.v <= Rat(b).v; }   \
  inline bool operator<=(T a, const Rat& b) { return Rat(a).v <= b.v; }   \
  inline bool operator>=(const Rat& a, T b) { return a.v >= Rat(b).v; }   \
  inline bool operator>=(T a, const Rat& b) { return Rat(a).v >= b.v; }   \
  inline bool operator==(const Rat& a, T b) { return a.v == Rat(b).v; }   \
  inline bool operator==(T a, const Rat& b) { return Rat(a).v == b.v; }   \
  inline bool operator!=(const Rat& a, T b) { return a.v != Rat(b).v; }   \
  inline bool operator!=(T a, const Rat& b) { return Rat(a).v != b.v; }
VF_RAT_MIXED(double)
VF_RAT_MIXED(int)
#undef VF_RAT_MIXED
inline bool operator<(const Rat& a, const Rat& b) { return a.v < b.v; }
inline bool operator>(const Rat& a, const Rat& b) { return a.v > b.v; }
inline bool operator<=(const Rat& a, const Rat& b) { return a.v <= b.v; }
inline bool operator>=(const Rat& a, const Rat& b) { return a.v >= b.v; }
inline bool operator==(const Rat& a, const Rat& b) { return a.v == b.v; }
inline bool operator!=(const Rat& a, const Rat& b) { return a.v != b.v; }
inline std::ostream& operator<<(std::ostream& s, const Rat& r) { return s << r.v << (r.inexact ? "~" : ""); }

inline Rat approx(double x, const Rat& a) { return Rat(BigQ(std::isfinite(x) ? x : 0.0), true | a.inexact); }
inline Rat abs(const Rat& a) { return Rat(a.v < 0 ? BigQ(-a.v) : a.v, a.inexact); }
inline Rat abs2(const Rat& a) { return a * a; }
inline Rat fabs(const Rat& a) { return abs(a); }
inline Rat sqrt(const Rat& a) {
  if (a.v < 0) return approx(0, a);
  BigZ n = boost::multiprecision::numerator(a.v), dd = boost::multiprecision::denominator(a.v);
  BigZ rn = boost::multiprecision::sqrt(n), rd = boost::multiprecision::sqrt(dd);
  if (rn * rn == n && rd * rd == dd) return Rat(BigQ(rn, rd), a.inexact);
  return approx(std::sqrt(a.d()), a);
}
inline Rat sin(const Rat& a) { if (a.v == 0) return Rat(BigQ(0), a.inexact); return approx(std::sin(a.d()), a); }
inline Rat cos(const Rat& a) { if (a.v == 0) return Rat(BigQ(1), a.inexact); return approx(std::cos(a.d()), a); }
inline Rat tan(const Rat& a) { if (a.v == 0) return Rat(BigQ(0), a.inexact); return approx(std::tan(a.d()), a); }
inline Rat asin(const Rat& a) { if (a.v == 0) return Rat(BigQ(0), a.inexact); return approx(std::asin(a.d()), a); }
inline Rat acos(const Rat& a) { if (a.v == 1) return Rat(BigQ(0), a.inexact); return approx(std::acos(a.d()), a); }
inline Rat atan(const Rat& a) { if (a.v == 0) return Rat(BigQ(0), a.inexact); return approx(std::atan(a.d()), a); }
inline Rat atan2(const Rat& y, const Rat& x) {
  if (y.v == 0 && x.v > 0) return Rat(BigQ(0), y.inexact | x.inexact);
  Rat r = approx(std::atan2(y.d(), x.d()), y); r.inexact = true; return r;
}
inline Rat exp(const Rat& a) { if (a.v == 0) return Rat(BigQ(1), a.inexact); return approx(std::exp(a.d()), a); }
inline Rat log(const Rat& a) { if (a.v == 1) return Rat(BigQ(0), a.inexact); return approx(std::log(a.d()), a); }
inline Rat cbrt(const Rat& a) { return approx(std::cbrt(a.d()), a); }
inline Rat pow(const Rat& a, int n) { Rat r(1); for (int i = 0; i < (n < 0 ? -n : n); ++i) r *= a; return n < 0 ? Rat(1) / r : r; }
inline Rat pow(const Rat& a, const Rat& b) { return approx(std::pow(a.d(), b.d()), a); }
inline Rat floor(const Rat& a) { return approx(std::floor(a.d()), a); }
inline Rat ceil(const Rat& a) { return approx(std::ceil(a.d()), a); }
inline bool isfinite(const Rat&) { return true; }
inline bool isnan(const Rat&) { return false; }
inline bool isinf(const Rat&) { return false; }
inline Rat min(const Rat& a, const Rat& b) { return a.v < b.v ? a : b; }
inline Rat max(const Rat& a, const Rat& b) { return a.v < b.v ? b : a; }

}  // namespace vf

namespace std {
inline vf::Rat numeric_limits<vf::Rat>::epsilon() { return vf::Rat(0x1p-100); }
inline vf::Rat numeric_limits<vf::Rat>::min() { return vf::Rat(0x1p-1000); }
inline vf::Rat numeric_limits<vf::Rat>::max() { return vf::Rat(0x1p1000); }
inline vf::Rat numeric_limits<vf::Rat>::lowest() { return vf::Rat(-0x1p1000); }
inline vf::Rat numeric_limits<vf::Rat>::infinity() { return vf::Rat(0x1p1000); }
inline vf::Rat numeric_limits<vf::Rat>::quiet_NaN() { return vf::Rat(0.0); }
}  // namespace std

namespace Eigen {
template <> struct NumTraits<vf::Rat> : GenericNumTraits<vf::Rat> {
  typedef vf::Rat Real;
  typedef vf::Rat NonInteger;
  typedef vf::Rat Nested;
  typedef vf::Rat Literal;
  enum { IsComplex = 0, IsInteger = 0, IsSigned = 1, RequireInitialization = 1, ReadCost = 20, AddCost = 100, MulCost = 200 };
  static inline Real epsilon() { return vf::Rat(0x1p-100); }
  static inline Real dummy_precision() { return vf::Rat(0x1p-90); }
  static inline Real highest() { return vf::Rat(0x1p1000); }
  static inline Real lowest() { return vf::Rat(-0x1p1000); }
  static inline int digits10() { return 300; }
};
}  // namespace Eigen
