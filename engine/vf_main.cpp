// vf_main.cpp -- entry point shared by all rapidcheck property binaries.
//   <bin> run --cases N --frag out.json --replay-out r.json [--known F10,F12] [--thorough]
//         (seed etc. through RC_PARAMS, set by the driver)
//   <bin> replay file.json [--known ...]      exit 0 pass / 1 fail / 2 inconclusive
//   <bin> info
#include <rapidcheck.h>

#include <chrono>
#include <cinttypes>
#include <cmath>
#include <cstdio>
#include <cstdlib>
#include <cstring>
#include <fstream>
#include <iostream>
#include <map>
#include <set>
#include <sstream>

#include "vf_case.h"
#include "vf_gen.h"

namespace vf {
std::string jstr(const std::string& s);
std::string jnum(double x);
}

// ------------------------------------------------------------------ rapidcheck chooser
namespace {

struct RcChooser : vf::Chooser {
  int64_t range(int64_t lo, int64_t hi) override {
    if (hi <= lo) return lo;
    return *rc::gen::inRange<int64_t>(lo, hi + 1);
  }
};

struct Stats {
  long evaluations = 0, passes = 0, fails = 0, inconclusive = 0, excluded_known = 0, confirmed_mp = 0;
  std::set<uint64_t> nontrivial;
  std::map<std::string, long> labels;
  std::map<std::string, double> margins;
  std::map<std::string, long> known_hits;
  std::vector<std::string> samples;
  bool have_fail = false;
  vf::Case fail_case;
  vf::Outcome fail_outcome;
  long runs_after_fail = 0;
};

std::set<std::string> parse_known(const char* s) {
  std::set<std::string> r;
  if (!s) return r;
  std::stringstream ss(s); std::string tok;
  while (std::getline(ss, tok, ',')) if (!tok.empty()) r.insert(tok);
  return r;
}

void account(Stats& st, const vf::Case& c, const vf::Outcome& o) {
  st.evaluations++;
  for (auto& l : o.labels) st.labels[l]++;
  for (auto& m : o.margins) { auto it = st.margins.find(m.first); if (it == st.margins.end() || it->second < m.second) st.margins[m.first] = m.second; }
  for (auto& k : o.known_hit) st.known_hits[k]++;
  if (!o.known_hit.empty()) st.excluded_known++;
  st.confirmed_mp += o.confirmed_mp;
  if (o.st == vf::Outcome::INCONCLUSIVE) st.inconclusive++;
  else if (o.st == vf::Outcome::FAIL) st.fails++;
  else st.passes++;
  if (o.nontrivial && o.st != vf::Outcome::INCONCLUSIVE) {
    bool fresh = st.nontrivial.insert(vf::case_hash(c)).second;
    if (fresh && (st.samples.size() < 4 || (st.samples.size() < 8 && st.evaluations % 97 == 0)))
      st.samples.push_back(vf::case_to_json(vfp::property_id(), vfp::config_name(), c));
  }
}

void write_frag(const char* path, const Stats& st, double wall, bool failed, long max_shrink_hit) {
  std::ofstream f(path);
  f << "{\"property\":\"" << vfp::property_id() << "\",\"config\":\"" << vfp::config_name() << "\",";
  f << "\"evaluations\":" << st.evaluations << ",\"distinct_nontrivial\":" << st.nontrivial.size() << ",";
  f << "\"passes\":" << st.passes << ",\"fails\":" << st.fails << ",\"oracle_inconclusive\":" << st.inconclusive << ",";
  f << "\"excluded_known\":" << st.excluded_known << ",\"confirmed_in_50_digits\":" << st.confirmed_mp << ",";
  f << "\"failed\":" << (failed ? "true" : "false") << ",\"shrink_budget_hit\":" << max_shrink_hit << ",";
  f << "\"wall_s\":" << wall << ",\"rule\":" << vf::jstr(vfp::nontrivial_rule()) << ",";
  f << "\"labels\":{";
  bool first = true;
  for (auto& l : st.labels) { f << (first ? "" : ",") << vf::jstr(l.first) << ":" << l.second; first = false; }
  f << "},\"max_err_over_tol\":{";
  first = true;
  for (auto& l : st.margins) { f << (first ? "" : ",") << vf::jstr(l.first) << ":" << vf::jnum(l.second); first = false; }
  f << "},\"known_hits\":{";
  first = true;
  for (auto& l : st.known_hits) { f << (first ? "" : ",") << vf::jstr(l.first) << ":" << l.second; first = false; }
  f << "},\"samples\":[";
  for (size_t i = 0; i < st.samples.size(); ++i) f << (i ? "," : "") << st.samples[i];
  f << "]}\n";
}

}  // namespace

int main(int argc, char** argv) {
  std::string mode = argc > 1 ? argv[1] : "info";
  const char* frag = nullptr; const char* replay_out = nullptr; const char* known = nullptr;
  const char* replay_in = nullptr;
  vf::RunCtx ctx;
  long shrink_budget = 400;
  for (int i = 2; i < argc; ++i) {
    std::string a = argv[i];
    if (a == "--frag" && i + 1 < argc) frag = argv[++i];
    else if (a == "--replay-out" && i + 1 < argc) replay_out = argv[++i];
    else if (a == "--known" && i + 1 < argc) known = argv[++i];
    else if (a == "--thorough") ctx.thorough = true;
    else if (a == "--shrink-budget" && i + 1 < argc) shrink_budget = atol(argv[++i]);
    else if (a[0] != '-' && !replay_in) replay_in = argv[i];
  }
  ctx.known = parse_known(known);

  if (mode == "info") {
    vf::Spec s = vfp::spec();
    printf("{\"property\":\"%s\",\"config\":\"%s\",\"dof\":%d,\"rep\":%d}\n", vfp::property_id(), vfp::config_name(), s.dof(), s.rep());
    return 0;
  }
  if (mode == "replay") {
    if (!replay_in) { fprintf(stderr, "replay: file missing\n"); return 3; }
    std::ifstream f(replay_in);
    std::stringstream ss; ss << f.rdbuf();
    std::string prop, cfg; vf::Case c;
    if (!vf::case_from_json(ss.str(), prop, cfg, c)) { fprintf(stderr, "replay: cannot parse %s\n", replay_in); return 3; }
    vf::Outcome o = vfp::run_case(c, ctx);
    printf("{\"replay\":\"%s\",\"status\":%d,\"sub\":%s,\"err\":%s,\"tol\":%s,\"msg\":%s,\"known_hit\":%d}\n", replay_in, (int)o.st,
           vf::jstr(o.sub).c_str(), vf::jnum(o.err).c_str(), vf::jnum(o.tol).c_str(), vf::jstr(o.msg).c_str(), (int)o.known_hit.size());
    return o.st == vf::Outcome::FAIL ? 1 : (o.st == vf::Outcome::INCONCLUSIVE ? 2 : 0);
  }
  if (mode != "run") { fprintf(stderr, "unknown mode\n"); return 3; }

  const vf::Spec spec = vfp::spec();
  const vf::Shape shape = vfp::shape();
  Stats st;
  long budget_hit = 0;
  auto t0 = std::chrono::steady_clock::now();
  bool ok = rc::check(std::string(vfp::property_id()) + "/" + vfp::config_name(), [&]() {
    const int size = *rc::gen::withSize([](int sz) { return rc::gen::just(sz); });
    vf::Case c = *rc::gen::resize(100, rc::gen::exec([&, size]() {
      RcChooser ch;
      return vf::build_case(ch, spec, shape, size);
    }));
    if (st.have_fail) {
      // we are shrinking: bound the number of oracle evaluations spent on it
      if (++st.runs_after_fail > shrink_budget) { budget_hit = 1; return; }
    }
    vf::Outcome o = vfp::run_case(c, ctx);
    if (!st.have_fail) account(st, c, o);
    if (o.st == vf::Outcome::FAIL) {
      st.have_fail = true;
      st.fail_case = c;
      st.fail_outcome = o;
      RC_FAIL(o.sub + ": " + o.msg);
    }
  });
  double wall = std::chrono::duration<double>(std::chrono::steady_clock::now() - t0).count();
  if (!ok && st.have_fail && replay_out) {
    std::ofstream f(replay_out);
    f << vf::case_to_json(vfp::property_id(), vfp::config_name(), st.fail_case, &st.fail_outcome) << "\n";
  }
  if (frag) write_frag(frag, st, wall, !ok, budget_hit);
  return ok ? 0 : 1;
}
