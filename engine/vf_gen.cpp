// vf_gen.cpp -- stratified case construction from a stream of bounded integer choices.
#include "vf_gen.h"

#include <cmath>
#include <limits>

namespace vf {

static const long double PI_L = 3.14159265358979323846264338327950288L;

static int pick_weighted(Chooser& ch, std::initializer_list<int> w) {
  int tot = 0;
  for (int x : w) tot += x;
  int r = (int)ch.range(0, tot - 1);
  int i = 0;
  for (int x : w) { if (r < x) return i; r -= x; ++i; }
  return i - 1;
}

static double fl(double x, bool is_float) { return is_float ? (double)(float)x : x; }

// mantissa in [1,10): short decimal forms first so that shrinking gives readable numbers
static double gen_mant(Chooser& ch) {
  switch (pick_weighted(ch, {3, 3, 2})) {
    case 0: return (double)ch.range(1, 9);
    case 1: return (double)ch.range(100000, 999999) / 1e5;
    default: {
      double m = (double)ch.range(100000, 999999) / 1e5;
      double k = (double)ch.range(0, (1 << 20) - 1);
      return m * (1.0 + k * 0x1p-52);   // exercise the low-order bits
    }
  }
}

double gen_magnitude(Chooser& ch, int lo_exp, int hi_exp) {
  int e = (int)ch.range(lo_exp, hi_exp);
  return gen_mant(ch) * std::pow(10.0, e);
}

static double gen_sign(Chooser& ch) { return ch.range(0, 1) ? -1.0 : 1.0; }

// rotation magnitude strata; literals on purpose (not read from manif::Constants)
double gen_theta(Chooser& ch, TanProfile tp, bool is_float) {
  const double sw = is_float ? 3.452669770922512e-3 : 1.4901161193847656e-07;   // sqrt(100*eps)
  const double cu = is_float ? 2.2845e-2 : 2.8107e-5;                             // cbrt(100*eps)
  const int tiny_lo = is_float ? -36 : -300, tiny_hi = is_float ? -5 : -9;
  int st;
  switch (tp) {
    case TP_FULL: st = pick_weighted(ch, {1, 1, 2, 3, 2, 4, 5, 3, 1, 2}); break;
    case TP_INJ: case TP_MODERATE: st = pick_weighted(ch, {1, 1, 2, 3, 2, 4, 5, 3, 0, 0}); break;
    default: st = pick_weighted(ch, {1, 0, 1, 2, 1, 3, 3, 0, 0, 0}); break;
  }
  switch (st) {
    case 0: return 0.0;
    case 1: return is_float ? (double)(1.4012984643e-45f * (float)ch.range(1, 1000))
                            : 4.9406564584124654e-324 * (double)ch.range(1, 1000);
    case 2: return gen_magnitude(ch, tiny_lo, tiny_hi);
    case 3: {
      int k = (int)ch.range(0, is_float ? 7 : 16);
      double r = (k == 0) ? sw : sw * (1.0 + gen_sign(ch) * std::pow(10.0, -k));
      return r;
    }
    case 4: {
      int k = (int)ch.range(1, is_float ? 6 : 12);
      return cu * (1.0 + gen_sign(ch) * std::pow(10.0, -k));
    }
    // 1e-3 .. 1e-1 is the band right below the theta^2 < 1e-2 switch-over of the series helpers: a stratum of its own
    case 5: return ch.range(0, 2) == 0 ? gen_magnitude(ch, -3, -2) : gen_magnitude(ch, is_float ? -3 : -7, -3);
    case 6: {
      double hi = (tp == TP_SMALL || tp == TP_VEL) ? 0.5 : 3.0;
      return 1e-2 + (hi - 1e-2) * (double)ch.range(0, 1000000) / 1e6;
    }
    case 7: {
      int kmax = (tp == TP_FULL) ? (is_float ? 7 : 15) : (is_float ? 4 : 6);
      int k = (int)ch.range(1, kmax);
      return (double)(PI_L - powl(10.0L, -k));
    }
    case 8: {
      double p = M_PI;
      int w = (int)ch.range(0, 2);
      if (w == 0) return p;
      return std::nextafter(p, w == 1 ? 0.0 : 10.0);
    }
    default: {
      // beyond pi, incl. just below / above 2 pi
      int w = pick_weighted(ch, {3, 1, 1});
      if (w == 0) return M_PI + (3 * M_PI) * (double)ch.range(1, 1000000) / 1e6;
      int k = (int)ch.range(1, is_float ? 6 : 14);
      return (double)(2 * PI_L + (w == 1 ? -1 : 1) * powl(10.0L, -k));
    }
  }
}

static void gen_axis(Chooser& ch, long double ax[3]) {
  int w = pick_weighted(ch, {5, 2, 1});
  if (w == 1) {
    int i = (int)ch.range(0, 2);
    ax[0] = ax[1] = ax[2] = 0; ax[i] = gen_sign(ch);
    return;
  }
  long double a[3];
  for (;;) {
    for (int i = 0; i < 3; ++i) a[i] = (long double)ch.range(-1000, 1000);
    if (w == 2) a[(int)ch.range(0, 2)] = 0;
    long double n = sqrtl(a[0] * a[0] + a[1] * a[1] + a[2] * a[2]);
    if (n > 0) { for (int i = 0; i < 3; ++i) ax[i] = a[i] / n; return; }
    // all-zero draw: fall back deterministically (no rejection loop on the choice stream)
    ax[0] = 1; ax[1] = 0; ax[2] = 0; return;
  }
}

static double gen_lin(Chooser& ch, int lo_exp, int hi_exp) {
  if (ch.range(0, 5) == 0) return 0.0;
  return gen_sign(ch) * gen_magnitude(ch, lo_exp, hi_exp);
}

static void lin_range(TanProfile tp, bool is_float, int& lo, int& hi) {
  lo = is_float ? -6 : -8;
  switch (tp) {
    case TP_FULL: case TP_INJ: hi = 6; break;
    case TP_MODERATE: hi = 3; break;
    default: hi = 0; break;
  }
}

void gen_tangent(Chooser& ch, const Spec& s, TanProfile tp, bool is_float, std::vector<double>& out) {
  size_t start = out.size();
  int lo, hi;
  lin_range(tp, is_float, lo, hi);
  for (const Elem& e : s.e) {
    std::vector<double> t(e.dof(), 0.0);
    // one common magnitude class for the linear components or fully independent ones
    bool common = ch.range(0, 2) == 0;
    int ce = (int)ch.range(lo, hi);
    for (int i = 0; i < e.dof(); ++i) {
      bool is_ang = e.k != K_RN && i >= e.ang0() && i < e.ang0() + e.nang();
      if (is_ang) continue;
      t[i] = common ? (ch.range(0, 7) == 0 ? 0.0 : gen_sign(ch) * gen_mant(ch) * std::pow(10.0, ce))
                    : gen_lin(ch, lo, hi);
    }
    if (e.k != K_RN) {
      double th = gen_theta(ch, tp, is_float);
      if (e.nang() == 1) t[e.ang0()] = gen_sign(ch) * th;
      else {
        long double ax[3]; gen_axis(ch, ax);
        for (int i = 0; i < 3; ++i) t[e.ang0() + i] = (double)(ax[i] * (long double)th);
      }
    }
    for (double x : t) out.push_back(fl(x, is_float));
  }
  if (tp == TP_SMALL || tp == TP_VEL) {
    const double cap = (tp == TP_SMALL) ? 0.5 : 10.0;
    double n2 = 0;
    for (size_t i = start; i < out.size(); ++i) n2 += out[i] * out[i];
    double n = std::sqrt(n2);
    if (tp == TP_VEL) {  // velocities: spread magnitudes up to the cap
      double target = cap * (double)ch.range(0, 1000) / 1000.0;
      if (n > 0) for (size_t i = start; i < out.size(); ++i) out[i] = fl(out[i] * target / n, is_float);
    } else if (n > cap) {
      for (size_t i = start; i < out.size(); ++i) out[i] = fl(out[i] * (cap / n) * 0.999, is_float);
    }
  }
}

// rotation coefficients: unit complex number / unit quaternion (x,y,z,w)
static void gen_rot2(Chooser& ch, bool is_float, double& re, double& im) {
  double th = gen_theta(ch, TP_FULL, is_float) * gen_sign(ch);
  re = fl((double)cosl((long double)th), is_float);
  im = fl((double)sinl((long double)th), is_float);
}

static void gen_quat(Chooser& ch, bool is_float, double q[4]) {
  long double x, y, z, w;
  long double ax[3];
  gen_axis(ch, ax);
  int route = pick_weighted(ch, {6, 3, 1});
  if (route == 0) {
    // angle-axis, angle over [0, 4 pi] strata: both hemispheres, near pi, near 2 pi (w ~ -1, |v| tiny)
    long double th = gen_theta(ch, TP_FULL, is_float);
    long double sn = sinl(th / 2), c = cosl(th / 2);
    x = ax[0] * sn; y = ax[1] * sn; z = ax[2] * sn; w = c;
    if (ch.range(0, 3) == 0) { x = -x; y = -y; z = -z; w = -w; }
  } else if (route == 1) {
    // raw coefficients: prescribed |v| (tiny .. small), w = +-sqrt(1-|v|^2)
    long double vn;
    switch (pick_weighted(ch, {1, 2, 3, 2})) {
      case 0: vn = 0; break;
      case 1: vn = gen_magnitude(ch, is_float ? -30 : -300, -13); break;
      case 2: vn = gen_magnitude(ch, -12, -6); break;
      default: vn = (is_float ? 3.452669770922512e-3L : 1.4901161193847656e-07L) / 2 *
                    (1.0L + gen_sign(ch) * powl(10.0L, -(int)ch.range(1, 12))); break;
    }
    x = ax[0] * vn; y = ax[1] * vn; z = ax[2] * vn;
    w = sqrtl(1 - vn * vn) * gen_sign(ch);
  } else {
    // generic 4-vector
    long double a[4];
    for (int i = 0; i < 4; ++i) a[i] = (long double)ch.range(-1000, 1000);
    if (a[0] == 0 && a[1] == 0 && a[2] == 0 && a[3] == 0) a[3] = 1;
    x = a[0]; y = a[1]; z = a[2]; w = a[3];
  }
  long double n = sqrtl(x * x + y * y + z * z + w * w);
  q[0] = fl((double)(x / n), is_float); q[1] = fl((double)(y / n), is_float);
  q[2] = fl((double)(z / n), is_float); q[3] = fl((double)(w / n), is_float);
}

void gen_element(Chooser& ch, const Spec& s, ElemProfile ep, bool is_float, std::vector<double>& out) {
  int lo = is_float ? -6 : -8, hi = (ep == EP_ALL) ? 6 : (ep == EP_MODERATE ? 3 : (is_float ? 6 : 9));
  for (const Elem& e : s.e) {
    std::vector<double> c(e.rep(), 0.0);
    bool common = ch.range(0, 2) == 0;
    int ce = (int)ch.range(lo, hi);
    auto lin = [&]() -> double {
      double v = common ? (ch.range(0, 7) == 0 ? 0.0 : gen_sign(ch) * gen_mant(ch) * std::pow(10.0, ce))
                        : gen_lin(ch, lo, hi);
      return fl(v, is_float);
    };
    for (int i = 0; i < e.rep(); ++i) {
      bool is_rot = e.k != K_RN && i >= e.rot0() && i < e.rot0() + e.nrot();
      if (!is_rot) c[i] = lin();
    }
    if (e.k != K_RN) {
      if (e.nrot() == 2) gen_rot2(ch, is_float, c[e.rot0()], c[e.rot0() + 1]);
      else gen_quat(ch, is_float, &c[e.rot0()]);
    }
    for (double x : c) out.push_back(x);
  }
}

void gen_point(Chooser& ch, int dim, bool is_float, std::vector<double>& out) {
  for (int i = 0; i < dim; ++i) out.push_back(fl(gen_lin(ch, is_float ? -6 : -8, 6), is_float));
}

double gen_scalar(Chooser& ch, ScalarKind k, bool is_float) {
  switch (k) {
    case SK_UNIT: {
      switch (pick_weighted(ch, {1, 1, 3, 3, 1, 1})) {
        case 0: return 0.0;
        case 1: return 1.0;
        case 2: return fl((double)ch.range(1, 999) / 1000.0, is_float);
        case 3: return fl((double)ch.range(1, 999999999) / 1e9, is_float);
        case 4: return fl(gen_magnitude(ch, is_float ? -30 : -300, -9), is_float);
        default: return fl(1.0 - gen_magnitude(ch, is_float ? -7 : -16, -9), is_float);
      }
    }
    case SK_ANYT: {
      switch (pick_weighted(ch, {6, 2, 2, 1, 1})) {
        case 0: return gen_scalar(ch, SK_UNIT, is_float);
        case 1: return fl(-gen_magnitude(ch, is_float ? -30 : -300, 3), is_float);
        case 2: {
          double d = gen_magnitude(ch, is_float ? -6 : -15, 3);
          double v = fl(1.0 + d, is_float);
          return v > 1.0 ? v : std::nextafter(is_float ? (double)std::nextafter(1.0f, 2.0f) : 1.0, 2.0);
        }
        case 3: return std::numeric_limits<double>::quiet_NaN();
        default: return ch.range(0, 1) ? INFINITY : -INFINITY;
      }
    }
    case SK_EPS: return fl(gen_magnitude(ch, is_float ? -6 : -12, -2), is_float);
    case SK_SIGNED_MAG: return fl(gen_lin(ch, is_float ? -6 : -8, 6), is_float);
    case SK_ANGLE: {
      switch (pick_weighted(ch, {3, 3, 2, 2})) {
        case 0: return fl((double)ch.range(-40, 40) * M_PI / 2, is_float);
        case 1: return fl((double)ch.range(-20000000, 20000000) / 1e6 * M_PI, is_float);
        case 2: return fl(gen_sign(ch) * gen_theta(ch, TP_FULL, is_float), is_float);
        default: {
          double base = (double)ch.range(-8, 8) * M_PI / 2;
          return fl(base + gen_sign(ch) * gen_magnitude(ch, is_float ? -6 : -15, -3), is_float);
        }
      }
    }
    case SK_LOGS: {
      double s;
      if (ch.range(0, 2) == 0) s = 1.0; else s = 1.0 + 3.0 * (double)ch.range(0, 1000) / 1000.0;
      return ch.range(0, 1) ? s : -s;
    }
  }
  return 0;
}

Case build_case(Chooser& ch, const Spec& s, const Shape& sh, int size) {
  Case c;
  for (const IntRange& r : sh.ints) c.ints.push_back(ch.range(r.lo, r.hi));
  for (int i = 0; i < sh.n_elems; ++i) gen_element(ch, s, sh.ep, sh.is_float, c.reals);
  for (int i = 0; i < sh.n_tangents; ++i) gen_tangent(ch, s, sh.tp, sh.is_float, c.reals);
  for (int i = 0; i < sh.n_points; ++i) gen_point(ch, s.dim(), sh.is_float, c.reals);
  for (ScalarKind k : sh.scalars) c.reals.push_back(gen_scalar(ch, k, sh.is_float));
  if (sh.seq_max > 0) {
    int hi = sh.seq_min + (int)((long)(sh.seq_max - sh.seq_min) * size / 100);
    if (hi < sh.seq_min) hi = sh.seq_min;
    int L = (int)ch.range(sh.seq_min, hi);
    for (int i = 0; i < L; ++i) {
      c.ints.push_back(ch.range(0, sh.n_ops - 1));
      gen_tangent(ch, s, sh.seq_tp, sh.is_float, c.reals);
    }
  }
  return c;
}

const char* theta_stratum(double th, bool is_float) {
  th = std::fabs(th);
  const double sw = is_float ? 3.452669770922512e-3 : 1.4901161193847656e-07;
  if (th == 0) return "theta=0";
  if (th < (is_float ? 1.2e-38 : 2.3e-308)) return "theta:denormal";
  if (th < sw * 0.5) return "theta<switch/2";
  if (th < sw) return "theta:[switch/2,switch)";
  if (th < sw * 2) return "theta:[switch,2switch)";
  if (th < 1e-5) return "theta:[2switch,1e-5)";
  if (th < 1e-4) return "theta:[1e-5,1e-4)";
  if (th < 1e-3) return "theta:[1e-4,1e-3)";
  if (th < 1e-2) return "theta:[1e-3,1e-2)";
  if (th < 1e-1) return "theta:[1e-2,1e-1)";
  if (th < 3.0) return "theta:[1e-1,3)";
  if (th < M_PI - 1e-3) return "theta:[3,pi-1e-3)";
  if (th < M_PI - 1e-6) return "theta:[pi-1e-3,pi-1e-6)";
  if (th <= M_PI) return "theta:[pi-1e-6,pi]";
  return "theta>pi";
}

const char* mag_decade(double x) {
  x = std::fabs(x);
  if (x == 0) return "lin=0";
  if (x < 1e-6) return "lin<1e-6";
  if (x < 1e-3) return "lin:[1e-6,1e-3)";
  if (x < 1) return "lin:[1e-3,1)";
  if (x < 1e3) return "lin:[1,1e3)";
  if (x < 1e5) return "lin:[1e3,1e5)";
  return "lin>=1e5";
}

}  // namespace vf
