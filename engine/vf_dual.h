// vf_dual.h -- forward-mode dual number (value + N partial derivatives), the ceres::Jet pattern,
// written independently so that manif can be instantiated over an AD scalar without ceres.
#pragma once
#include <Eigen/Core>
#include <cmath>
#include <limits>
#include <ostream>

namespace vf {

template <int N> struct Dual {
  using Vec = Eigen::Matrix<double, N, 1>;
  double a;
  Vec v;
  Dual() : a(0) { v.setZero(); }
  Dual(double x) : a(x) { v.setZero(); }
  Dual(float x) : a(x) { v.setZero(); }
  Dual(int x) : a(x) { v.setZero(); }
  Dual(long x) : a((double)x) { v.setZero(); }
  Dual(unsigned x) : a(x) { v.setZero(); }
  Dual(unsigned long x) : a((double)x) { v.setZero(); }
  Dual(double x, int k) : a(x) { v.setZero(); v(k) = 1; }
  Dual(double x, const Vec& d) : a(x), v(d) {}
  explicit operator double() const { return a; }
  explicit operator long double() const { return a; }
  explicit operator float() const { return (float)a; }
  explicit operator int() const { return (int)a; }
  Dual& operator+=(const Dual& o) { a += o.a; v += o.v; return *this; }
  Dual& operator-=(const Dual& o) { a -= o.a; v -= o.v; return *this; }
  Dual& operator*=(const Dual& o) { v = v * o.a + o.v * a; a *= o.a; return *this; }
  Dual& operator/=(const Dual& o) { const double inv = 1.0 / o.a; const double q = a * inv; v = (v - o.v * q) * inv; a = q; return *this; }
  Dual operator-() const { return Dual(-a, Vec(-v)); }
  Dual operator+() const { return *this; }
};
template <int N> Dual<N> operator+(Dual<N> x, const Dual<N>& y) { x += y; return x; }
template <int N> Dual<N> operator-(Dual<N> x, const Dual<N>& y) { x -= y; return x; }
template <int N> Dual<N> operator*(Dual<N> x, const Dual<N>& y) { x *= y; return x; }
template <int N> Dual<N> operator/(Dual<N> x, const Dual<N>& y) { x /= y; return x; }
#define VF_DUAL_MIXED(T)                                                                    \
  template <int N> Dual<N> operator+(const Dual<N>& x, T y) { return x + Dual<N>(y); }       \
  template <int N> Dual<N> operator+(T x, const Dual<N>& y) { return Dual<N>(x) + y; }       \
  template <int N> Dual<N> operator-(const Dual<N>& x, T y) { return x - Dual<N>(y); }       \
  template <int N> Dual<N> operator-(T x, const Dual<N>& y) { return Dual<N>(x) - y; }       \
  template <int N> Dual<N> operator*(const Dual<N>& x, T y) { return x * Dual<N>(y); }       \
  template <int N> Dual<N> operator*(T x, const Dual<N>& y) { return Dual<N>(x) * y; }       \
  template <int N> Dual<N> operator/(const Dual<N>& x, T y) { return x / Dual<N>(y); }       \
  template <int N> Dual<N> operator/(T x, const Dual<N>& y) { return Dual<N>(x) / y; }       \
  template <int N> bool operator<(const Dual<N>& x, T y) { return x.a < y; }                 \
  template <int N> bool operator<(T x, const Dual<N>& y) { return x < y.a; }                 \
  template <int N> bool operator>(const Dual<N>& x, T y) { return x.a > y; }                 \
  template <int N> bool operator>(T x, const Dual<N>& y) { return x > y.a; }                 \
  template <int N> bool operator<=(const Dual<N>& x, T y) { return x.a <= y; }               \
  template <int N> bool operator<=(T x, const Dual<N>& y) { return x <= y.a; }               \
  template <int N> bool operator>=(const Dual<N>& x, T y) { return x.a >= y; }               \
  template <int N> bool operator>=(T x, const Dual<N>& y) { return x >= y.a; }               \
  template <int N> bool operator==(const Dual<N>& x, T y) { return x.a == y; }               \
  template <int N> bool operator==(T x, const Dual<N>& y) { return x == y.a; }               \
  template <int N> bool operator!=(const Dual<N>& x, T y) { return x.a != y; }               \
  template <int N> bool operator!=(T x, const Dual<N>& y) { return x != y.a; }
VF_DUAL_MIXED(double)
VF_DUAL_MIXED(int)
#undef VF_DUAL_MIXED
template <int N> bool operator<(const Dual<N>& x, const Dual<N>& y) { return x.a < y.a; }
template <int N> bool operator>(const Dual<N>& x, const Dual<N>& y) { return x.a > y.a; }
template <int N> bool operator<=(const Dual<N>& x, const Dual<N>& y) { return x.a <= y.a; }
template <int N> bool operator>=(const Dual<N>& x, const Dual<N>& y) { return x.a >= y.a; }
template <int N> bool operator==(const Dual<N>& x, const Dual<N>& y) { return x.a == y.a; }
template <int N> bool operator!=(const Dual<N>& x, const Dual<N>& y) { return x.a != y.a; }
template <int N> std::ostream& operator<<(std::ostream& s, const Dual<N>& x) { return s << "[" << x.a << " ; " << x.v.transpose() << "]"; }

// elementary functions: f(x) -> (f(a), f'(a) v), exactly as ceres::Jet does (including inf*0 = NaN at sqrt(0))
template <int N> Dual<N> chain(double f, double df, const Dual<N>& x) { return Dual<N>(f, typename Dual<N>::Vec(x.v * df)); }
template <int N> Dual<N> abs(const Dual<N>& x) { return x.a < 0 ? -x : x; }
template <int N> Dual<N> fabs(const Dual<N>& x) { return abs(x); }
template <int N> Dual<N> abs2(const Dual<N>& x) { return x * x; }
template <int N> Dual<N> sqrt(const Dual<N>& x) { const double s = std::sqrt(x.a); return chain(s, 1.0 / (2.0 * s), x); }
template <int N> Dual<N> cbrt(const Dual<N>& x) { const double s = std::cbrt(x.a); return chain(s, 1.0 / (3.0 * s * s), x); }
template <int N> Dual<N> sin(const Dual<N>& x) { return chain(std::sin(x.a), std::cos(x.a), x); }
template <int N> Dual<N> cos(const Dual<N>& x) { return chain(std::cos(x.a), -std::sin(x.a), x); }
template <int N> Dual<N> tan(const Dual<N>& x) { const double t = std::tan(x.a); return chain(t, 1 + t * t, x); }
template <int N> Dual<N> asin(const Dual<N>& x) { return chain(std::asin(x.a), 1.0 / std::sqrt(1 - x.a * x.a), x); }
template <int N> Dual<N> acos(const Dual<N>& x) { return chain(std::acos(x.a), -1.0 / std::sqrt(1 - x.a * x.a), x); }
template <int N> Dual<N> atan(const Dual<N>& x) { return chain(std::atan(x.a), 1.0 / (1 + x.a * x.a), x); }
template <int N> Dual<N> atan2(const Dual<N>& y, const Dual<N>& x) {
  const double d = 1.0 / (x.a * x.a + y.a * y.a);
  return Dual<N>(std::atan2(y.a, x.a), typename Dual<N>::Vec((y.v * x.a - x.v * y.a) * d));
}
template <int N> Dual<N> exp(const Dual<N>& x) { const double e = std::exp(x.a); return chain(e, e, x); }
template <int N> Dual<N> log(const Dual<N>& x) { return chain(std::log(x.a), 1.0 / x.a, x); }
template <int N> Dual<N> pow(const Dual<N>& x, double p) { return chain(std::pow(x.a, p), p * std::pow(x.a, p - 1), x); }
template <int N> Dual<N> pow(const Dual<N>& x, int p) { return pow(x, (double)p); }
template <int N> Dual<N> pow(const Dual<N>& x, const Dual<N>& p) {
  const double f = std::pow(x.a, p.a);
  return Dual<N>(f, typename Dual<N>::Vec(x.v * (p.a * std::pow(x.a, p.a - 1)) + p.v * (f * std::log(x.a))));
}
template <int N> Dual<N> floor(const Dual<N>& x) { return Dual<N>(std::floor(x.a)); }
template <int N> Dual<N> ceil(const Dual<N>& x) { return Dual<N>(std::ceil(x.a)); }
template <int N> bool isfinite(const Dual<N>& x) { return std::isfinite(x.a) && x.v.allFinite(); }
template <int N> bool isnan(const Dual<N>& x) { return std::isnan(x.a) || x.v.hasNaN(); }
template <int N> bool isinf(const Dual<N>& x) { return std::isinf(x.a); }
template <int N> Dual<N> min(const Dual<N>& x, const Dual<N>& y) { return y.a < x.a ? y : x; }
template <int N> Dual<N> max(const Dual<N>& x, const Dual<N>& y) { return x.a < y.a ? y : x; }

}  // namespace vf

namespace std {
template <int N> struct numeric_limits<vf::Dual<N>> {
  static const bool is_specialized = true, is_signed = true, is_integer = false, is_exact = false, has_infinity = true, has_quiet_NaN = true;
  static const bool has_signaling_NaN = false, has_denorm_loss = false, is_iec559 = false, is_bounded = true, is_modulo = false, traps = false, tinyness_before = false;
  static const float_denorm_style has_denorm = denorm_present;
  static const float_round_style round_style = round_to_nearest;
  static const int digits = 53, digits10 = 15, max_digits10 = 17, radix = 2, min_exponent = -1021, max_exponent = 1024, min_exponent10 = -307, max_exponent10 = 308;
  static vf::Dual<N> epsilon() { return vf::Dual<N>(numeric_limits<double>::epsilon()); }
  static vf::Dual<N> min() { return vf::Dual<N>(numeric_limits<double>::min()); }
  static vf::Dual<N> max() { return vf::Dual<N>(numeric_limits<double>::max()); }
  static vf::Dual<N> lowest() { return vf::Dual<N>(numeric_limits<double>::lowest()); }
  static vf::Dual<N> infinity() { return vf::Dual<N>(numeric_limits<double>::infinity()); }
  static vf::Dual<N> quiet_NaN() { return vf::Dual<N>(numeric_limits<double>::quiet_NaN()); }
};
}  // namespace std

namespace Eigen {
template <int N> struct NumTraits<vf::Dual<N>> : GenericNumTraits<vf::Dual<N>> {
  typedef vf::Dual<N> Real;
  typedef vf::Dual<N> NonInteger;
  typedef vf::Dual<N> Nested;
  typedef vf::Dual<N> Literal;
  enum { IsComplex = 0, IsInteger = 0, IsSigned = 1, RequireInitialization = 1, ReadCost = 1, AddCost = 1 + N, MulCost = 3 + 3 * N };
  static inline Real epsilon() { return Real(std::numeric_limits<double>::epsilon()); }
  static inline Real dummy_precision() { return Real(1e-12); }
  static inline Real highest() { return Real(std::numeric_limits<double>::max()); }
  static inline Real lowest() { return Real(-std::numeric_limits<double>::max()); }
  static inline int digits10() { return 15; }
};
template <int N, typename BinaryOp> struct ScalarBinaryOpTraits<vf::Dual<N>, double, BinaryOp> { typedef vf::Dual<N> ReturnType; };
template <int N, typename BinaryOp> struct ScalarBinaryOpTraits<double, vf::Dual<N>, BinaryOp> { typedef vf::Dual<N> ReturnType; };
}  // namespace Eigen
