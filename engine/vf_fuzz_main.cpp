// vf_fuzz_main.cpp -- libFuzzer entry point: bytes -> Chooser -> the same build_case() / run_case() as rapidcheck.
// A failing oracle writes the decoded Case as a replay JSON (path in $VF_FUZZ_REPLAY) and traps, so that the
// crash artefact of libFuzzer and the JSON replay (which goes through the rapidcheck binary's `replay` mode,
// i.e. a plain function call without any engine) describe the same case.
#include <cstdint>
#include <cstdio>
#include <cstdlib>
#include <fstream>
#include <set>
#include <string>

#include "vf_case.h"
#include "vf_gen.h"

namespace {
struct ByteChooser : vf::Chooser {
  const uint8_t* p; size_t n, at = 0;
  ByteChooser(const uint8_t* d, size_t s) : p(d), n(s) {}
  int64_t range(int64_t lo, int64_t hi) override {
    if (hi <= lo) return lo;
    const uint64_t span = (uint64_t)(hi - lo) + 1;
    int nbytes = 1;
    while (nbytes < 8 && (span - 1) >> (8 * nbytes)) ++nbytes;
    uint64_t v = 0;
    for (int i = 0; i < nbytes; ++i) { v <<= 8; if (at < n) v |= p[at++]; }
    return lo + (int64_t)(v % span);
  }
};
long g_exec = 0, g_fail = 0, g_inconclusive = 0;
std::set<uint64_t>* g_nontrivial = nullptr;
void dump_stats() {
  const char* path = getenv("VF_FUZZ_STATS");
  if (!path) return;
  std::ofstream f(path);
  f << "{\"property\":\"" << vfp::property_id() << "\",\"config\":\"" << vfp::config_name() << "\",\"evaluations\":" << g_exec
    << ",\"distinct_nontrivial\":" << (g_nontrivial ? g_nontrivial->size() : 0) << ",\"fails\":" << g_fail
    << ",\"oracle_inconclusive\":" << g_inconclusive << ",\"rule\":\"" << "libFuzzer byte stream decoded by the stratified generators" << "\"}\n";
}
}  // namespace

extern "C" int LLVMFuzzerTestOneInput(const uint8_t* data, size_t size) {
  static const vf::Spec spec = vfp::spec();
  static const vf::Shape shape = vfp::shape();
  static vf::RunCtx ctx;
  static bool init = false;
  if (!init) { init = true; ctx.fuzz = true; g_nontrivial = new std::set<uint64_t>(); atexit(dump_stats); }
  if (size < 4) return 0;
  ByteChooser ch(data, size);
  const int sz = (int)ch.range(0, 100);
  vf::Case c = vf::build_case(ch, spec, shape, sz);
  vf::Outcome o = vfp::run_case(c, ctx);
  ++g_exec;
  if (o.st == vf::Outcome::INCONCLUSIVE) ++g_inconclusive;
  if (o.nontrivial) g_nontrivial->insert(vf::case_hash(c));
  if (o.st == vf::Outcome::FAIL) {
    ++g_fail;
    if (const char* path = getenv("VF_FUZZ_REPLAY")) {
      std::ofstream f(path);
      f << vf::case_to_json(vfp::property_id(), vfp::config_name(), c, &o) << "\n";
    }
    fprintf(stderr, "VF-ORACLE-FAIL %s: %s (err %g tol %g)\n", o.sub.c_str(), o.msg.c_str(), o.err, o.tol);
    dump_stats();
    __builtin_trap();
  }
  return 0;
}
