// vf_ref.cpp -- see vf_ref.h.  No manif here.
#include "vf_ref.h"

#include <boost/multiprecision/cpp_bin_float.hpp>
#include <boost/multiprecision/eigen.hpp>
#include <cmath>
#include <functional>
#include <stdexcept>

namespace vf {

using MP = boost::multiprecision::cpp_bin_float_50;

// ---------------------------------------------------------------- structure
int Elem::rep() const {
  switch (k) { case K_SO2: return 2; case K_SE2: return 4; case K_SO3: return 4; case K_SE3: return 7;
    case K_SE23: return 10; case K_SGAL3: return 11; case K_RN: return n; }
  return 0;
}
int Elem::dof() const {
  switch (k) { case K_SO2: return 1; case K_SE2: return 3; case K_SO3: return 3; case K_SE3: return 6;
    case K_SE23: return 9; case K_SGAL3: return 10; case K_RN: return n; }
  return 0;
}
int Elem::dim() const {
  switch (k) { case K_SO2: case K_SE2: return 2; case K_RN: return n; default: return 3; }
}
int Elem::msz() const {
  switch (k) { case K_SO2: case K_SE2: return 3; case K_SO3: case K_SE3: return 4;
    case K_SE23: case K_SGAL3: return 5; case K_RN: return n + 1; }
  return 0;
}
int Elem::alg() const {
  if (k == K_SO2) return 2;
  if (k == K_SO3) return 3;
  return msz();
}
int Elem::tra() const { return msz(); }
int Elem::ang0() const {
  switch (k) { case K_SO2: return 0; case K_SE2: return 2; case K_SO3: return 0; case K_SE3: return 3;
    case K_SE23: return 3; case K_SGAL3: return 6; case K_RN: return 0; }
  return 0;
}
int Elem::nang() const {
  switch (k) { case K_SO2: case K_SE2: return 1; case K_RN: return 0; default: return 3; }
}
int Elem::rot0() const {
  switch (k) { case K_SO2: return 0; case K_SE2: return 2; case K_SO3: return 0; case K_RN: return 0;
    default: return 3; }
}
int Elem::nrot() const {
  switch (k) { case K_SO2: case K_SE2: return 2; case K_RN: return 0; default: return 4; }
}

#define VF_SUM(fn) int r = 0; for (const auto& x : e) r += x.fn(); return r;
#define VF_OFF(fn) int r = 0; for (int j = 0; j < i; ++j) r += e[j].fn(); return r;
int Spec::rep() const { VF_SUM(rep) }
int Spec::dof() const { VF_SUM(dof) }
int Spec::dim() const { VF_SUM(dim) }
int Spec::msz() const { VF_SUM(msz) }
int Spec::alg() const { VF_SUM(alg) }
int Spec::tra() const { VF_SUM(tra) }
int Spec::rep_off(int i) const { VF_OFF(rep) }
int Spec::dof_off(int i) const { VF_OFF(dof) }
int Spec::dim_off(int i) const { VF_OFF(dim) }
int Spec::msz_off(int i) const { VF_OFF(msz) }
int Spec::alg_off(int i) const { VF_OFF(alg) }
int Spec::tra_off(int i) const { VF_OFF(tra) }
bool Spec::has_rotation() const { for (auto& x : e) if (x.k != K_RN) return true; return false; }

static Spec one(const char* nm, Kind k, int n = 0) { Spec s; s.name = nm; s.e.push_back(Elem{k, n}); return s; }
Spec spec_so2() { return one("SO2", K_SO2); }
Spec spec_se2() { return one("SE2", K_SE2); }
Spec spec_so3() { return one("SO3", K_SO3); }
Spec spec_se3() { return one("SE3", K_SE3); }
Spec spec_se23() { return one("SE_2_3", K_SE23); }
Spec spec_sgal3() { return one("SGal3", K_SGAL3); }
Spec spec_rn(int n) { Spec s = one("R", K_RN, n); s.name = "R" + std::to_string(n); return s; }
Spec spec_bundle(const std::string& name, const std::vector<Spec>& parts) {
  Spec s; s.name = name;
  for (auto& p : parts) for (auto& x : p.e) s.e.push_back(x);
  return s;
}

// generator table of one elementary group, documented basis, homogeneous size
static std::vector<Trip> elem_generator(const Elem& e, int i) {
  auto rot3 = [](int a) -> std::vector<Trip> {  // skew basis E_a
    switch (a) {
      case 0: return {{2, 1, 1}, {1, 2, -1}};
      case 1: return {{0, 2, 1}, {2, 0, -1}};
      default: return {{1, 0, 1}, {0, 1, -1}};
    }
  };
  std::vector<Trip> rot2 = {{1, 0, 1}, {0, 1, -1}};
  switch (e.k) {
    case K_SO2: return rot2;
    case K_SE2: if (i < 2) return {{i, 2, 1}}; return rot2;
    case K_SO3: return rot3(i);
    case K_SE3: if (i < 3) return {{i, 3, 1}}; return rot3(i - 3);
    case K_SE23:
      if (i < 3) return {{i, 3, 1}};
      if (i < 6) return rot3(i - 3);
      return {{i - 6, 4, 1}};
    case K_SGAL3:
      if (i < 3) return {{i, 4, 1}};
      if (i < 6) return {{i - 3, 3, 1}};
      if (i < 9) return rot3(i - 6);
      return {{3, 4, 1}};
    case K_RN: return {{i, e.n, 1}};
  }
  return {};
}

std::vector<Trip> ref_generator(const Spec& s, int i) {
  for (size_t b = 0; b < s.e.size(); ++b) {
    int o = s.dof_off((int)b);
    if (i >= o && i < o + s.e[b].dof()) {
      auto t = elem_generator(s.e[b], i - o);
      int mo = s.msz_off((int)b);
      for (auto& x : t) { x.r += mo; x.c += mo; }
      return t;
    }
  }
  throw std::out_of_range("ref_generator");
}

MatL ref_generator_mat(const Spec& s, int i) {
  MatL G = MatL::Zero(s.msz(), s.msz());
  for (auto& t : ref_generator(s, i)) G(t.r, t.c) = t.v;
  return G;
}

// ---------------------------------------------------------------- templated core
template <class R> using M = Eigen::Matrix<R, Eigen::Dynamic, Eigen::Dynamic>;
template <class R> using V = Eigen::Matrix<R, Eigen::Dynamic, 1>;

template <class R> static M<R> up(const MatL& A) {
  M<R> B(A.rows(), A.cols());
  for (int i = 0; i < A.rows(); ++i) for (int j = 0; j < A.cols(); ++j) B(i, j) = R(A(i, j));
  return B;
}
template <class R> static V<R> upv(const VecL& a) {
  V<R> b(a.size());
  for (int i = 0; i < a.size(); ++i) b(i) = R(a(i));
  return b;
}
template <class R> static MatL down(const M<R>& A) {
  MatL B(A.rows(), A.cols());
  for (int i = 0; i < A.rows(); ++i) for (int j = 0; j < A.cols(); ++j) B(i, j) = static_cast<LD>(A(i, j));
  return B;
}
template <class R> static VecL downv(const V<R>& a) {
  VecL b(a.size());
  for (int i = 0; i < a.size(); ++i) b(i) = static_cast<LD>(a(i));
  return b;
}

template <class R> struct PrecTraits;
template <> struct PrecTraits<LD> {
  static LD tiny() { return 1e-22L; }
  static LD cert() { return 2e-16L; }
  static LD fdh() { return 1e-6L; }
};
template <> struct PrecTraits<MP> {
  static MP tiny() { return MP("1e-55"); }
  static MP cert() { return MP("1e-40"); }
  static MP fdh() { return MP("1e-20"); }
};

template <class R> static R mabs(const M<R>& A) {
  R m = 0;
  for (int i = 0; i < A.rows(); ++i) for (int j = 0; j < A.cols(); ++j) { R a = abs(A(i, j)); if (a > m) m = a; }
  return m;
}

template <class R> static M<R> expm_t(const M<R>& A) {
  using std::abs;
  const int n = (int)A.rows();
  R nrm = 0;
  for (int j = 0; j < n; ++j) { R c = 0; for (int i = 0; i < n; ++i) c += abs(A(i, j)); if (c > nrm) nrm = c; }
  int s = 0;
  R sc = 1;
  while (nrm * sc > R(0.25)) { sc /= 2; ++s; if (s > 200) break; }
  M<R> B = A * sc;
  M<R> E = M<R>::Identity(n, n), T = M<R>::Identity(n, n);
  for (int k = 1; k < 80; ++k) {
    T = (T * B) / R(k);
    E += T;
    if (mabs<R>(T) < PrecTraits<R>::tiny() * (R(1) + mabs<R>(E)) * R(1e-6)) break;
  }
  for (int i = 0; i < s; ++i) E = E * E;
  return E;
}

// per element: matrix from coefficients
template <class R> static M<R> elem_mat(const Elem& e, const V<R>& c, bool normalise) {
  using std::sqrt;
  const int n = e.msz();
  M<R> T = M<R>::Identity(n, n);
  auto rot2 = [&](R re, R im) {
    if (normalise) { R nn = sqrt(re * re + im * im); re /= nn; im /= nn; }
    T(0, 0) = re; T(0, 1) = -im; T(1, 0) = im; T(1, 1) = re;
  };
  auto rot3 = [&](R x, R y, R z, R w) {
    if (normalise) { R nn = sqrt(x * x + y * y + z * z + w * w); x /= nn; y /= nn; z /= nn; w /= nn; }
    T(0, 0) = 1 - 2 * (y * y + z * z); T(0, 1) = 2 * (x * y - z * w);     T(0, 2) = 2 * (x * z + y * w);
    T(1, 0) = 2 * (x * y + z * w);     T(1, 1) = 1 - 2 * (x * x + z * z); T(1, 2) = 2 * (y * z - x * w);
    T(2, 0) = 2 * (x * z - y * w);     T(2, 1) = 2 * (y * z + x * w);     T(2, 2) = 1 - 2 * (x * x + y * y);
  };
  switch (e.k) {
    case K_SO2: rot2(c(0), c(1)); break;
    case K_SE2: rot2(c(2), c(3)); T(0, 2) = c(0); T(1, 2) = c(1); break;
    case K_SO3: rot3(c(0), c(1), c(2), c(3)); break;
    case K_SE3: rot3(c(3), c(4), c(5), c(6)); for (int i = 0; i < 3; ++i) T(i, 3) = c(i); break;
    case K_SE23:
      rot3(c(3), c(4), c(5), c(6));
      for (int i = 0; i < 3; ++i) { T(i, 3) = c(i); T(i, 4) = c(7 + i); }
      break;
    case K_SGAL3:
      rot3(c(3), c(4), c(5), c(6));
      for (int i = 0; i < 3; ++i) { T(i, 4) = c(i); T(i, 3) = c(7 + i); }
      T(3, 4) = c(10);
      break;
    case K_RN: for (int i = 0; i < e.n; ++i) T(i, e.n) = c(i); break;
  }
  return T;
}

template <class R> static M<R> elem_hat(const Elem& e, const V<R>& t) {
  const int n = e.msz();
  M<R> H = M<R>::Zero(n, n);
  for (int i = 0; i < e.dof(); ++i)
    for (auto& g : elem_generator(e, i)) H(g.r, g.c) += R(g.v) * t(i);
  return H;
}

template <class R> static V<R> elem_vee(const Elem& e, const M<R>& A) {
  V<R> t(e.dof());
  for (int i = 0; i < e.dof(); ++i) {
    auto g = elem_generator(e, i)[0];
    t(i) = A(g.r, g.c) / R(g.v);
  }
  return t;
}

// rotation matrix (3x3 top-left) -> unit quaternion (x,y,z,w) with w >= 0, Shepperd
template <class R> static void quat_of(const M<R>& T, R q[4]) {
  using std::sqrt;
  R tr = T(0, 0) + T(1, 1) + T(2, 2);
  R x, y, z, w;
  if (tr >= T(0, 0) && tr >= T(1, 1) && tr >= T(2, 2)) {
    w = sqrt(1 + tr) / 2;
    x = (T(2, 1) - T(1, 2)) / (4 * w); y = (T(0, 2) - T(2, 0)) / (4 * w); z = (T(1, 0) - T(0, 1)) / (4 * w);
  } else if (T(0, 0) >= T(1, 1) && T(0, 0) >= T(2, 2)) {
    x = sqrt(1 + T(0, 0) - T(1, 1) - T(2, 2)) / 2;
    w = (T(2, 1) - T(1, 2)) / (4 * x); y = (T(0, 1) + T(1, 0)) / (4 * x); z = (T(0, 2) + T(2, 0)) / (4 * x);
  } else if (T(1, 1) >= T(2, 2)) {
    y = sqrt(1 - T(0, 0) + T(1, 1) - T(2, 2)) / 2;
    w = (T(0, 2) - T(2, 0)) / (4 * y); x = (T(0, 1) + T(1, 0)) / (4 * y); z = (T(1, 2) + T(2, 1)) / (4 * y);
  } else {
    z = sqrt(1 - T(0, 0) - T(1, 1) + T(2, 2)) / 2;
    w = (T(1, 0) - T(0, 1)) / (4 * z); x = (T(0, 2) + T(2, 0)) / (4 * z); y = (T(1, 2) + T(2, 1)) / (4 * z);
  }
  if (w < 0) { x = -x; y = -y; z = -z; w = -w; }
  R nn = sqrt(x * x + y * y + z * z + w * w);
  q[0] = x / nn; q[1] = y / nn; q[2] = z / nn; q[3] = w / nn;
}

template <class R> static bool elem_log(const Elem& e, const M<R>& T, V<R>& tau) {
  using std::atan2; using std::sqrt; using std::abs;
  tau = V<R>::Zero(e.dof());
  if (e.k == K_RN) { for (int i = 0; i < e.n; ++i) tau(i) = T(i, e.n); return true; }
  // rotation part
  if (e.nang() == 1) {
    tau(e.ang0()) = atan2(T(1, 0), T(0, 0));
  } else {
    R q[4]; quat_of<R>(T, q);
    R vn = sqrt(q[0] * q[0] + q[1] * q[1] + q[2] * q[2]);
    if (vn > 0) {
      R th = 2 * atan2(vn, q[3]);
      for (int i = 0; i < 3; ++i) tau(e.ang0() + i) = q[i] / vn * th;
    }
  }
  if (e.k == K_SGAL3) tau(9) = T(3, 4);
  // linear components: exp is affine in them for fixed rotation (and time)
  std::vector<int> lin;
  for (int i = 0; i < e.dof(); ++i) {
    bool is_ang = (i >= e.ang0() && i < e.ang0() + e.nang());
    bool is_time = (e.k == K_SGAL3 && i == 9);
    if (!is_ang && !is_time) lin.push_back(i);
  }
  const int n = e.msz();
  if (!lin.empty()) {
    M<R> E0 = expm_t<R>(elem_hat<R>(e, tau));
    M<R> A(n * n, (int)lin.size());
    V<R> b(n * n);
    for (size_t j = 0; j < lin.size(); ++j) {
      V<R> t2 = tau; t2(lin[j]) = 1;
      M<R> Ej = expm_t<R>(elem_hat<R>(e, t2)) - E0;
      for (int r = 0; r < n; ++r) for (int c = 0; c < n; ++c) A(r * n + c, (int)j) = Ej(r, c);
    }
    for (int r = 0; r < n; ++r) for (int c = 0; c < n; ++c) b(r * n + c) = T(r, c) - E0(r, c);
    M<R> AtA = A.transpose() * A;
    V<R> Atb = A.transpose() * b;
    V<R> x = AtA.fullPivLu().solve(Atb);
    for (size_t j = 0; j < lin.size(); ++j) tau(lin[j]) = x((int)j);
  }
  // certification
  M<R> chk = expm_t<R>(elem_hat<R>(e, tau)) - T;
  R scale = R(1) + mabs<R>(T);
  if (!(mabs<R>(chk) <= PrecTraits<R>::cert() * scale)) return false;
  return true;
}

// --- spec-level (bundles = block diagonal)
template <class R> static M<R> spec_mat(const Spec& s, const V<R>& c, bool normalise = true) {
  M<R> T = M<R>::Zero(s.msz(), s.msz());
  for (size_t b = 0; b < s.e.size(); ++b) {
    V<R> cb = c.segment(s.rep_off((int)b), s.e[b].rep());
    int o = s.msz_off((int)b), n = s.e[b].msz();
    T.block(o, o, n, n) = elem_mat<R>(s.e[b], cb, normalise);
  }
  return T;
}
template <class R> static M<R> spec_hat(const Spec& s, const V<R>& t) {
  M<R> T = M<R>::Zero(s.msz(), s.msz());
  for (size_t b = 0; b < s.e.size(); ++b) {
    V<R> tb = t.segment(s.dof_off((int)b), s.e[b].dof());
    int o = s.msz_off((int)b), n = s.e[b].msz();
    T.block(o, o, n, n) = elem_hat<R>(s.e[b], tb);
  }
  return T;
}
template <class R> static V<R> spec_vee(const Spec& s, const M<R>& A) {
  V<R> t(s.dof());
  for (size_t b = 0; b < s.e.size(); ++b) {
    int o = s.msz_off((int)b), n = s.e[b].msz();
    M<R> Ab = A.block(o, o, n, n);
    t.segment(s.dof_off((int)b), s.e[b].dof()) = elem_vee<R>(s.e[b], Ab);
  }
  return t;
}
template <class R> static M<R> spec_exp(const Spec& s, const V<R>& t) {
  M<R> T = M<R>::Zero(s.msz(), s.msz());
  for (size_t b = 0; b < s.e.size(); ++b) {
    V<R> tb = t.segment(s.dof_off((int)b), s.e[b].dof());
    int o = s.msz_off((int)b), n = s.e[b].msz();
    T.block(o, o, n, n) = expm_t<R>(elem_hat<R>(s.e[b], tb));
  }
  return T;
}
template <class R> static bool spec_log(const Spec& s, const M<R>& T, V<R>& tau) {
  tau = V<R>::Zero(s.dof());
  bool ok = true;
  for (size_t b = 0; b < s.e.size(); ++b) {
    int o = s.msz_off((int)b), n = s.e[b].msz();
    M<R> Tb = T.block(o, o, n, n);
    V<R> tb;
    ok = elem_log<R>(s.e[b], Tb, tb) && ok;
    tau.segment(s.dof_off((int)b), s.e[b].dof()) = tb;
  }
  return ok;
}
template <class R> static M<R> spec_inv(const Spec& s, const M<R>& T) {
  M<R> I = M<R>::Zero(s.msz(), s.msz());
  for (size_t b = 0; b < s.e.size(); ++b) {
    int o = s.msz_off((int)b), n = s.e[b].msz();
    M<R> Tb = T.block(o, o, n, n);
    I.block(o, o, n, n) = Tb.fullPivLu().inverse();
  }
  return I;
}
template <class R> static V<R> spec_embed(const Spec& s, const V<R>& p) {
  V<R> h = V<R>::Zero(s.msz());
  for (size_t b = 0; b < s.e.size(); ++b) {
    const Elem& e = s.e[b];
    int o = s.msz_off((int)b), po = s.dim_off((int)b);
    for (int i = 0; i < e.dim(); ++i) h(o + i) = p(po + i);
    switch (e.k) {
      case K_SE23: h(o + 3) = 1; break;             // (p;1;0)
      case K_SGAL3: h(o + 4) = 1; break;            // (p;0;1): an event at time 0
      default: h(o + e.msz() - 1) = 1; break;       // (p;1)
    }
  }
  return h;
}
template <class R> static V<R> spec_unembed(const Spec& s, const V<R>& h) {
  V<R> p(s.dim());
  for (size_t b = 0; b < s.e.size(); ++b) {
    int o = s.msz_off((int)b), po = s.dim_off((int)b);
    for (int i = 0; i < s.e[b].dim(); ++i) p(po + i) = h(o + i);
  }
  return p;
}
template <class R> static M<R> spec_ad(const Spec& s, const V<R>& t) {
  const int d = s.dof();
  M<R> A = M<R>::Zero(d, d);
  M<R> H = spec_hat<R>(s, t);
  for (int i = 0; i < d; ++i) {
    V<R> ei = V<R>::Zero(d); ei(i) = 1;
    M<R> Ei = spec_hat<R>(s, ei);
    M<R> C = H * Ei - Ei * H;
    A.col(i) = spec_vee<R>(s, C);
  }
  return A;
}
template <class R> static M<R> spec_Adj(const Spec& s, const M<R>& T) {
  const int d = s.dof();
  M<R> A = M<R>::Zero(d, d);
  M<R> Ti = spec_inv<R>(s, T);
  for (int i = 0; i < d; ++i) {
    V<R> ei = V<R>::Zero(d); ei(i) = 1;
    M<R> C = T * spec_hat<R>(s, ei) * Ti;
    A.col(i) = spec_vee<R>(s, C);
  }
  return A;
}
template <class R> static M<R> spec_Jl(const Spec& s, const V<R>& t) {
  // phi_1(ad_t) = top-right block of exp([[ad, I],[0,0]]), per element to keep sizes small
  const int d = s.dof();
  M<R> J = M<R>::Zero(d, d);
  for (size_t b = 0; b < s.e.size(); ++b) {
    Spec sb; sb.e.push_back(s.e[b]);
    int o = s.dof_off((int)b), n = s.e[b].dof();
    V<R> tb = t.segment(o, n);
    M<R> A = spec_ad<R>(sb, tb);
    M<R> B = M<R>::Zero(2 * n, 2 * n);
    B.block(0, 0, n, n) = A;
    B.block(0, n, n, n) = M<R>::Identity(n, n);
    M<R> E = expm_t<R>(B);
    J.block(o, o, n, n) = E.block(0, n, n, n);
  }
  return J;
}

// ---- values and ops for finite differences
template <class R> struct Val { bool grp; M<R> m; V<R> v; };

bool op_returns_group(Op op) {
  switch (op) {
    case OP_INVERSE: case OP_EXP: case OP_COMPOSE: case OP_BETWEEN: case OP_RPLUS: case OP_LPLUS: return true;
    default: return false;
  }
}
// argument kinds: 'g' group, 't' tangent, 'p' point, '-' none
static const char* op_args(Op op) {
  switch (op) {
    case OP_INVERSE: return "g-"; case OP_LOG: return "g-"; case OP_EXP: return "t-";
    case OP_COMPOSE: return "gg"; case OP_BETWEEN: return "gg"; case OP_RPLUS: return "gt";
    case OP_LPLUS: return "gt"; case OP_RMINUS: return "gg"; case OP_LMINUS: return "gg";
    case OP_ACT: return "gp"; case OP_TPLUS: return "tt"; case OP_TMINUS: return "tt";
  }
  return "--";
}

template <class R> static bool apply_op(const Spec& s, Op op, const Val<R>& a, const Val<R>& b, Val<R>& out) {
  out.grp = op_returns_group(op);
  switch (op) {
    case OP_INVERSE: out.m = spec_inv<R>(s, a.m); return true;
    case OP_LOG: return spec_log<R>(s, a.m, out.v);
    case OP_EXP: out.m = spec_exp<R>(s, a.v); return true;
    case OP_COMPOSE: out.m = a.m * b.m; return true;
    case OP_BETWEEN: out.m = spec_inv<R>(s, a.m) * b.m; return true;
    case OP_RPLUS: out.m = a.m * spec_exp<R>(s, b.v); return true;
    case OP_LPLUS: out.m = spec_exp<R>(s, b.v) * a.m; return true;
    case OP_RMINUS: { M<R> D = spec_inv<R>(s, b.m) * a.m; return spec_log<R>(s, D, out.v); }
    case OP_LMINUS: { M<R> D = a.m * spec_inv<R>(s, b.m); return spec_log<R>(s, D, out.v); }
    case OP_ACT: { V<R> h = spec_embed<R>(s, b.v); V<R> r = a.m * h; out.v = spec_unembed<R>(s, r); return true; }
    case OP_TPLUS: out.v = a.v + b.v; return true;
    case OP_TMINUS: out.v = a.v - b.v; return true;
  }
  return false;
}

template <class R> static Val<R> make_val(const Spec& s, char kind, const VecL& a) {
  Val<R> v; v.grp = (kind == 'g');
  if (kind == 'g') v.m = spec_mat<R>(s, upv<R>(a));
  else if (kind != '-') v.v = upv<R>(a);
  return v;
}

template <class R> static bool fd_jac_t(const Spec& s, Op op, const VecL& a0, const VecL& a1, int wrt,
                                        MatL& Jout, LD& err_est) {
  const char* ak = op_args(op);
  Val<R> A = make_val<R>(s, ak[0], a0), B = make_val<R>(s, ak[1], a1);
  Val<R> f0;
  if (!apply_op<R>(s, op, A, B, f0)) return false;
  M<R> f0inv; if (f0.grp) f0inv = spec_inv<R>(s, f0.m);
  const char wk = ak[wrt];
  const int nin = (wk == 'g' || wk == 't') ? s.dof() : s.dim();
  const int nout = f0.grp ? s.dof() : (int)f0.v.size();
  auto eval = [&](const R& h, M<R>& J) -> bool {
    J = M<R>::Zero(nout, nin);
    for (int i = 0; i < nin; ++i) {
      V<R> d[2];
      for (int sgn = 0; sgn < 2; ++sgn) {
        R hh = sgn ? -h : h;
        Val<R> A2 = A, B2 = B;
        Val<R>& W = (wrt == 0) ? A2 : B2;
        if (wk == 'g') { V<R> e = V<R>::Zero(nin); e(i) = hh; W.m = W.m * spec_exp<R>(s, e); }
        else { W.v(i) += hh; }
        Val<R> f1;
        if (!apply_op<R>(s, op, A2, B2, f1)) return false;
        if (f0.grp) { M<R> D = f0inv * f1.m; if (!spec_log<R>(s, D, d[sgn])) return false; }
        else d[sgn] = f1.v - f0.v;
      }
      J.col(i) = (d[0] - d[1]) / (2 * h);
    }
    return true;
  };
  M<R> Jh, Jh2;
  const R h = PrecTraits<R>::fdh();
  if (!eval(h, Jh)) return false;
  if (!eval(h / 2, Jh2)) return false;
  M<R> Jx = (R(4) * Jh2 - Jh) / R(3);
  Jout = down<R>(Jx);
  err_est = static_cast<LD>(mabs<R>(M<R>(Jh - Jh2)));
  return true;
}

// ---------------------------------------------------------------- public wrappers
#define VF_DISPATCH(expr_ld, expr_mp) (p == P_LD ? (expr_ld) : (expr_mp))

MatL ref_mat(const Spec& s, const VecL& c, Prec p) {
  return VF_DISPATCH(down<LD>(spec_mat<LD>(s, c)), down<MP>(spec_mat<MP>(s, upv<MP>(c))));
}
MatL ref_mat_raw(const Spec& s, const VecL& c) { return spec_mat<LD>(s, c, false); }
MatL ref_hat(const Spec& s, const VecL& t) { return spec_hat<LD>(s, t); }
VecL ref_vee(const Spec& s, const MatL& A) { return spec_vee<LD>(s, A); }
MatL ref_shrink_alg(const Spec& s, const MatL& hom) {
  MatL A = MatL::Zero(s.alg(), s.alg());
  for (size_t b = 0; b < s.e.size(); ++b) {
    int n = s.e[b].alg();
    A.block(s.alg_off((int)b), s.alg_off((int)b), n, n) = hom.block(s.msz_off((int)b), s.msz_off((int)b), n, n);
  }
  return A;
}
MatL ref_grow_alg(const Spec& s, const MatL& algm) {
  MatL A = MatL::Zero(s.msz(), s.msz());
  for (size_t b = 0; b < s.e.size(); ++b) {
    int n = s.e[b].alg();
    A.block(s.msz_off((int)b), s.msz_off((int)b), n, n) = algm.block(s.alg_off((int)b), s.alg_off((int)b), n, n);
  }
  return A;
}
VecL ref_embed(const Spec& s, const VecL& pnt) { return spec_embed<LD>(s, pnt); }
VecL ref_unembed(const Spec& s, const VecL& ph) { return spec_unembed<LD>(s, ph); }

MatL ref_expm(const MatL& A, Prec p) { return VF_DISPATCH(expm_t<LD>(A), down<MP>(expm_t<MP>(up<MP>(A)))); }
MatL ref_exp(const Spec& s, const VecL& t, Prec p) {
  return VF_DISPATCH(spec_exp<LD>(s, t), down<MP>(spec_exp<MP>(s, upv<MP>(t))));
}
MatL ref_inv(const Spec& s, const MatL& T, Prec p) {
  return VF_DISPATCH(spec_inv<LD>(s, T), down<MP>(spec_inv<MP>(s, up<MP>(T))));
}
bool ref_log(const Spec& s, const MatL& T, VecL& tau, Prec p) {
  if (p == P_LD) { V<LD> t; bool ok = spec_log<LD>(s, T, t); tau = t; return ok; }
  // an LD-rounded matrix is only in the group to 1e-19: certify at that level
  V<MP> t; M<MP> Tm = up<MP>(T);
  spec_log<MP>(s, Tm, t);
  tau = downv<MP>(t);
  M<MP> chk = spec_exp<MP>(s, t) - Tm;
  return static_cast<LD>(mabs<MP>(chk)) <= 1e-17L * (1 + maxabs(T));
}
VecL ref_coeffs(const Spec& s, const MatL& T, Prec) {
  VecL c = VecL::Zero(s.rep());
  for (size_t b = 0; b < s.e.size(); ++b) {
    const Elem& e = s.e[b];
    int o = s.msz_off((int)b), n = e.msz(), co = s.rep_off((int)b);
    MatL Tb = T.block(o, o, n, n);
    auto q3 = [&](int at) { LD q[4]; quat_of<LD>(Tb, q); for (int i = 0; i < 4; ++i) c(co + at + i) = q[i]; };
    switch (e.k) {
      case K_SO2: c(co) = Tb(0, 0); c(co + 1) = Tb(1, 0); break;
      case K_SE2: c(co) = Tb(0, 2); c(co + 1) = Tb(1, 2); c(co + 2) = Tb(0, 0); c(co + 3) = Tb(1, 0); break;
      case K_SO3: q3(0); break;
      case K_SE3: q3(3); for (int i = 0; i < 3; ++i) c(co + i) = Tb(i, 3); break;
      case K_SE23: q3(3); for (int i = 0; i < 3; ++i) { c(co + i) = Tb(i, 3); c(co + 7 + i) = Tb(i, 4); } break;
      case K_SGAL3: q3(3); for (int i = 0; i < 3; ++i) { c(co + i) = Tb(i, 4); c(co + 7 + i) = Tb(i, 3); }
        c(co + 10) = Tb(3, 4); break;
      case K_RN: for (int i = 0; i < e.n; ++i) c(co + i) = Tb(i, e.n); break;
    }
  }
  return c;
}
std::vector<LD> ref_angles_of_coeffs(const Spec& s, const VecL& c) {
  std::vector<LD> r;
  for (size_t b = 0; b < s.e.size(); ++b) {
    const Elem& e = s.e[b];
    if (e.k == K_RN) continue;
    int o = s.rep_off((int)b) + e.rot0();
    if (e.nrot() == 2) r.push_back(fabsl(atan2l(c(o + 1), c(o))));
    else {
      LD vn = sqrtl(c(o) * c(o) + c(o + 1) * c(o + 1) + c(o + 2) * c(o + 2));
      r.push_back(2 * atan2l(vn, fabsl(c(o + 3))));
    }
  }
  return r;
}

MatL ref_ad(const Spec& s, const VecL& t) { return spec_ad<LD>(s, t); }
MatL ref_Adj(const Spec& s, const MatL& T, Prec p) {
  return VF_DISPATCH(spec_Adj<LD>(s, T), down<MP>(spec_Adj<MP>(s, up<MP>(T))));
}
MatL ref_Jl(const Spec& s, const VecL& t, Prec p) {
  return VF_DISPATCH(spec_Jl<LD>(s, t), down<MP>(spec_Jl<MP>(s, upv<MP>(t))));
}
MatL ref_Jr(const Spec& s, const VecL& t, Prec p) { VecL m = -t; return ref_Jl(s, m, p); }
MatL ref_matinv(const MatL& A, Prec p) {
  if (p == P_LD) return A.fullPivLu().inverse();
  M<MP> B = up<MP>(A);
  M<MP> Bi = B.fullPivLu().inverse();
  return down<MP>(Bi);
}

bool ref_fd_jac(const Spec& s, Op op, const VecL& a0, const VecL& a1, int wrt, MatL& J, LD& err_est, Prec p) {
  return p == P_LD ? fd_jac_t<LD>(s, op, a0, a1, wrt, J, err_est) : fd_jac_t<MP>(s, op, a0, a1, wrt, J, err_est);
}

template <class R> static bool ref_op_t(const Spec& s, Op op, const VecL& a0, const VecL& a1, MatL& Mout, VecL& Vout) {
  const char* ak = op_args(op);
  Val<R> A = make_val<R>(s, ak[0], a0), B = make_val<R>(s, ak[1], a1), f;
  if (!apply_op<R>(s, op, A, B, f)) return false;
  if (f.grp) Mout = down<R>(f.m); else Vout = downv<R>(f.v);
  return true;
}
bool ref_op(const Spec& s, Op op, const VecL& a0, const VecL& a1, MatL& Mout, VecL& Vout, Prec p) {
  return p == P_LD ? ref_op_t<LD>(s, op, a0, a1, Mout, Vout) : ref_op_t<MP>(s, op, a0, a1, Mout, Vout);
}

LD maxabs(const MatL& A) { return A.size() ? A.cwiseAbs().maxCoeff() : 0; }

LD ref_group_err(const Spec& s, const MatL& got, const MatL& want, const std::vector<LD>& lin_scale) {
  LD worst = 0;
  for (size_t b = 0; b < s.e.size(); ++b) {
    const Elem& e = s.e[b];
    int o = s.msz_off((int)b), n = e.msz();
    int rd = (e.k == K_RN) ? 0 : e.dim();
    for (int r = 0; r < n; ++r) for (int c = 0; c < n; ++c) {
      LD d = fabsl(got(o + r, o + c) - want(o + r, o + c));
      if (std::isnan((double)d)) return INFINITY;
      LD sc = (r < rd && c < rd) ? 1.0L : (lin_scale.size() == 1 ? lin_scale[0] : lin_scale[b]);
      if (d / sc > worst) worst = d / sc;
    }
  }
  // anything outside the diagonal blocks must be exactly zero in both
  for (int r = 0; r < got.rows(); ++r) for (int c = 0; c < got.cols(); ++c) {
    bool inblk = false;
    for (size_t b = 0; b < s.e.size(); ++b) {
      int o = s.msz_off((int)b), n = s.e[b].msz();
      if (r >= o && r < o + n && c >= o && c < o + n) inblk = true;
    }
    if (!inblk && got(r, c) != 0) return INFINITY;
  }
  return worst;
}


std::vector<LD> ref_lin_scale_t(const Spec& s, const VecL& t) {
  std::vector<LD> r;
  for (size_t b = 0; b < s.e.size(); ++b) {
    const Elem& e = s.e[b];
    LD sc = 1, nu = 0, io = 0;
    for (int i = 0; i < e.dof(); ++i) {
      bool is_ang = e.k != K_RN && i >= e.ang0() && i < e.ang0() + e.nang();
      if (!is_ang) sc += fabsl(t(s.dof_off((int)b) + i));
      if (e.k == K_SGAL3 && i >= 3 && i < 6) nu += fabsl(t(s.dof_off((int)b) + i));
      if (e.k == K_SGAL3 && i == 9) io = fabsl(t(s.dof_off((int)b) + i));
    }
    sc += nu * io;
    r.push_back(sc);
  }
  return r;
}
std::vector<LD> ref_lin_scale_c(const Spec& s, const VecL& c) {
  std::vector<LD> r;
  for (size_t b = 0; b < s.e.size(); ++b) {
    const Elem& e = s.e[b];
    LD sc = 1, v = 0, tt = 0;
    for (int i = 0; i < e.rep(); ++i) {
      bool is_rot = e.k != K_RN && i >= e.rot0() && i < e.rot0() + e.nrot();
      if (!is_rot) sc += fabsl(c(s.rep_off((int)b) + i));
      if (e.k == K_SGAL3 && i >= 7 && i < 10) v += fabsl(c(s.rep_off((int)b) + i));
      if (e.k == K_SGAL3 && i == 10) tt = fabsl(c(s.rep_off((int)b) + i));
    }
    sc += v * tt;
    r.push_back(sc);
  }
  return r;
}
std::vector<LD> scale_add(const std::vector<LD>& a, const std::vector<LD>& b) {
  std::vector<LD> r(a.size());
  for (size_t i = 0; i < a.size(); ++i) r[i] = a[i] + b[i] - 1;
  return r;
}
std::vector<LD> scale_mul(const std::vector<LD>& a, const std::vector<LD>& b) {
  std::vector<LD> r(a.size());
  for (size_t i = 0; i < a.size(); ++i) r[i] = a[i] * b[i];
  return r;
}

}  // namespace vf
