// vf_rat_manif.h -- makes manif usable over vf::Rat (must be included before manif/manif.h)
#pragma once
#include "vf_rat.h"
#include <manif/constants.h>
#include <manif/impl/traits.h>
namespace manif {
template <> struct Constants<vf::Rat> {
  static const vf::Rat eps;
  static const vf::Rat eps_sqrt;
  static const vf::Rat to_rad;
  static const vf::Rat to_deg;
};
const vf::Rat Constants<vf::Rat>::eps = vf::Rat(0x1p-100);
const vf::Rat Constants<vf::Rat>::eps_sqrt = vf::Rat(0x1p-50);
const vf::Rat Constants<vf::Rat>::to_rad = vf::Rat(MANIF_PI / 180.0);
const vf::Rat Constants<vf::Rat>::to_deg = vf::Rat(180.0 / MANIF_PI);
namespace internal {
template <> struct is_ad<vf::Rat> : std::integral_constant<bool, true> {};
}
}  // namespace manif
