// vf_json.cpp -- serialisation of cases (shared by the rapidcheck and libFuzzer entry points)
#include <cinttypes>
#include <cmath>
#include <cstdio>
#include <cstdlib>
#include <cstring>
#include <sstream>

#include "vf_case.h"

namespace vf {

// ------------------------------------------------------------------ json helpers
std::string jstr(const std::string& s) {
  std::string o = "\"";
  for (char ch : s) {
    if (ch == '"' || ch == '\\') { o += '\\'; o += ch; }
    else if (ch == '\n') o += "\\n";
    else if ((unsigned char)ch < 0x20) o += ' ';
    else o += ch;
  }
  return o + "\"";
}
std::string jnum(double x) {
  if (!(x == x)) return "\"nan\"";
  if (std::isinf(x)) return x > 0 ? "\"inf\"" : "\"-inf\"";
  char b[64]; snprintf(b, sizeof b, "%.17g", x); return b;
}
std::string hexf(double x) {
  if (!(x == x)) return "nan";
  if (std::isinf(x)) return x > 0 ? "inf" : "-inf";
  char b[64]; snprintf(b, sizeof b, "%a", x); return b;
}

std::string case_to_json(const std::string& property, const std::string& config, const Case& c, const Outcome* o) {
  std::ostringstream s;
  s << "{\"property\":" << jstr(property) << ",\"config\":" << jstr(config) << ",\"ints\":[";
  for (size_t i = 0; i < c.ints.size(); ++i) s << (i ? "," : "") << c.ints[i];
  s << "],\"reals_hex\":[";
  for (size_t i = 0; i < c.reals.size(); ++i) s << (i ? "," : "") << "\"" << hexf(c.reals[i]) << "\"";
  s << "],\"reals\":[";
  for (size_t i = 0; i < c.reals.size(); ++i) s << (i ? "," : "") << jnum(c.reals[i]);
  s << "]";
  if (o) {
    s << ",\"sub\":" << jstr(o->sub) << ",\"err\":" << jnum(o->err) << ",\"tol\":" << jnum(o->tol)
      << ",\"msg\":" << jstr(o->msg);
  }
  s << "}";
  return s.str();
}

static bool find_array(const std::string& t, const std::string& key, std::string& body) {
  size_t p = t.find("\"" + key + "\"");
  if (p == std::string::npos) return false;
  p = t.find('[', p);
  if (p == std::string::npos) return false;
  size_t q = t.find(']', p);
  if (q == std::string::npos) return false;
  body = t.substr(p + 1, q - p - 1);
  return true;
}
static bool find_string(const std::string& t, const std::string& key, std::string& val) {
  size_t p = t.find("\"" + key + "\"");
  if (p == std::string::npos) return false;
  p = t.find(':', p);
  p = t.find('"', p);
  size_t q = t.find('"', p + 1);
  if (p == std::string::npos || q == std::string::npos) return false;
  val = t.substr(p + 1, q - p - 1);
  return true;
}

bool case_from_json(const std::string& text, std::string& property, std::string& config, Case& c) {
  c = Case();
  find_string(text, "property", property);
  find_string(text, "config", config);
  std::string body;
  if (!find_array(text, "ints", body)) return false;
  {
    std::stringstream ss(body); std::string tok;
    while (std::getline(ss, tok, ',')) { if (tok.find_first_not_of(" \n\t") == std::string::npos) continue; c.ints.push_back(strtoll(tok.c_str(), nullptr, 10)); }
  }
  if (!find_array(text, "reals_hex", body)) return false;
  {
    std::stringstream ss(body); std::string tok;
    while (std::getline(ss, tok, ',')) {
      size_t a = tok.find('"'), b = tok.rfind('"');
      if (a == std::string::npos || b <= a) continue;
      std::string v = tok.substr(a + 1, b - a - 1);
      if (v == "nan") c.reals.push_back(NAN);
      else if (v == "inf") c.reals.push_back(INFINITY);
      else if (v == "-inf") c.reals.push_back(-INFINITY);
      else c.reals.push_back(strtod(v.c_str(), nullptr));
    }
  }
  return true;
}

uint64_t case_hash(const Case& c) {
  uint64_t h = 1469598103934665603ull;
  auto mix = [&](uint64_t v) { for (int i = 0; i < 8; ++i) { h ^= (v >> (8 * i)) & 0xff; h *= 1099511628211ull; } };
  for (auto i : c.ints) mix((uint64_t)i);
  for (auto r : c.reals) { uint64_t b; memcpy(&b, &r, 8); mix(b); }
  return h;
}

}  // namespace vf

