// vf_ref.h -- reference model of the manif groups, independent of manif.
//
// Every group is described by its documented matrix structure only:
//   element  -> homogeneous matrix (Mat)
//   tangent  -> Lie-algebra matrix (Hat) from a generator table
// and everything else (exp, log, Jacobians, adjoints) is derived from the
// matrix exponential computed as a scaled power series in extended precision.
// Nothing in this file includes or uses manif.
//
// Two precisions: P_LD (long double, fast screening) and P_MP (50 decimal
// digits, boost cpp_bin_float_50, confirmation).  Results are returned as long
// double matrices (P_MP results are rounded to long double on return; functions
// that chain several steps do the whole chain in the requested precision).
#pragma once
#include <Eigen/Dense>
#include <string>
#include <vector>

namespace vf {

using LD = long double;
using MatL = Eigen::Matrix<LD, Eigen::Dynamic, Eigen::Dynamic>;
using VecL = Eigen::Matrix<LD, Eigen::Dynamic, 1>;

enum Kind { K_SO2 = 0, K_SE2, K_SO3, K_SE3, K_SE23, K_SGAL3, K_RN };

struct Elem {
  Kind k;
  int n;  // only for K_RN
  int rep() const;   // number of stored coefficients
  int dof() const;   // tangent dimension
  int dim() const;   // dimension of the space acted upon
  int msz() const;   // homogeneous matrix size
  int alg() const;   // size of manif's hat() matrix (SO2: 2, SO3: 3, else msz)
  int tra() const;   // size of manif's transform() matrix
  // index ranges inside the tangent: rotation part [ang0, ang0+nang), rest is "linear"
  int ang0() const;
  int nang() const;
  // index ranges inside coeffs of the rotation coefficients
  int rot0() const;
  int nrot() const;
};

struct Spec {
  std::string name;
  std::vector<Elem> e;
  int rep() const;
  int dof() const;
  int dim() const;
  int msz() const;
  int alg() const;
  int tra() const;
  int rep_off(int i) const;
  int dof_off(int i) const;
  int dim_off(int i) const;
  int msz_off(int i) const;
  int alg_off(int i) const;
  int tra_off(int i) const;
  bool has_rotation() const;
};

Spec spec_so2();
Spec spec_se2();
Spec spec_so3();
Spec spec_se3();
Spec spec_se23();
Spec spec_sgal3();
Spec spec_rn(int n);
Spec spec_bundle(const std::string& name, const std::vector<Spec>& parts);

enum Prec { P_LD = 0, P_MP = 1 };

// ---- structure ------------------------------------------------------------
// (row, col, value) triples of generator i of the group (homogeneous size).
struct Trip { int r, c; int v; };
std::vector<Trip> ref_generator(const Spec& s, int i);
MatL ref_generator_mat(const Spec& s, int i);

// homogeneous matrix of the element with the given coefficients (rotation
// coefficients are normalised in the reference precision first).
MatL ref_mat(const Spec& s, const VecL& coeffs, Prec p = P_LD);
// same but WITHOUT normalising the rotation coefficients
MatL ref_mat_raw(const Spec& s, const VecL& coeffs);
MatL ref_hat(const Spec& s, const VecL& tangent);
VecL ref_vee(const Spec& s, const MatL& alg);
// hat()/transform() in manif's own sizes (SO2 hat 2x2, SO3 hat 3x3; SO2/SO3
// transform 3x3 / 4x4; Rn transform (n+1)x(n+1)) from the homogeneous ones.
MatL ref_shrink_alg(const Spec& s, const MatL& hom);
MatL ref_grow_alg(const Spec& s, const MatL& algm);
// embed a point of the acted space into homogeneous coordinates / extract
VecL ref_embed(const Spec& s, const VecL& p);
VecL ref_unembed(const Spec& s, const VecL& ph);

// ---- exponential / logarithm -----------------------------------------------
MatL ref_expm(const MatL& A, Prec p = P_LD);
MatL ref_exp(const Spec& s, const VecL& tangent, Prec p = P_LD);
MatL ref_inv(const Spec& s, const MatL& M, Prec p = P_LD);  // group inverse (matrix inverse)
// principal logarithm of a group matrix; returns false if the candidate could
// not be certified (|exp(hat(tau)) - M| too large or angle > pi).
bool ref_log(const Spec& s, const MatL& M, VecL& tau, Prec p = P_LD);
// coefficient vector (unit rotation part, w>=0 hemisphere) of a group matrix
VecL ref_coeffs(const Spec& s, const MatL& M, Prec p = P_LD);
// rotation angle (per element with a rotation) of the matrix / coefficient vector
std::vector<LD> ref_angles_of_coeffs(const Spec& s, const VecL& coeffs);

// ---- adjoint / Jacobians of exp ----------------------------------------------
MatL ref_ad(const Spec& s, const VecL& tangent);                 // small adjoint
MatL ref_Adj(const Spec& s, const MatL& M, Prec p = P_LD);       // Adjoint of the element
MatL ref_Jl(const Spec& s, const VecL& tangent, Prec p = P_LD);  // sum ad^k/(k+1)!
MatL ref_Jr(const Spec& s, const VecL& tangent, Prec p = P_LD);  // Jl(-t)
MatL ref_matinv(const MatL& A, Prec p = P_LD);                   // dense inverse

// ---- finite-difference Jacobians on the model -----------------------------------
enum Op {
  OP_INVERSE = 0, OP_LOG, OP_EXP, OP_COMPOSE, OP_BETWEEN, OP_RPLUS, OP_LPLUS,
  OP_RMINUS, OP_LMINUS, OP_ACT, OP_TPLUS, OP_TMINUS
};
// a0, a1: the two arguments as coefficient / tangent / point vectors in the order
// of the member call (X.op(a1)); unary ops ignore a1.  wrt: 0 or 1.
// err_est receives |J_h - J_{h/2}| max-abs (the oracle's own error estimate).
// Returns false when a logarithm needed by the oracle could not be certified.
bool ref_fd_jac(const Spec& s, Op op, const VecL& a0, const VecL& a1, int wrt,
                MatL& J, LD& err_est, Prec p = P_LD);
// value of the op on the model: group-valued ops return the matrix in Mout,
// vector-valued ones (log, rminus, lminus, act, tplus, tminus) return Vout.
bool ref_op(const Spec& s, Op op, const VecL& a0, const VecL& a1, MatL& Mout, VecL& Vout,
            Prec p = P_LD);
bool op_returns_group(Op op);

// ---- helpers ----------------------------------------------------------------------
LD maxabs(const MatL& A);
// block-relative comparison of two homogeneous matrices of the group: for every
// element block, rotation sub-block uses scale 1, the other columns use `lin_scale`.
// lin_scale has one entry per element (or a single entry used for all).
// returns the max over blocks of |dM| / scale.
LD ref_group_err(const Spec& s, const MatL& got, const MatL& want, const std::vector<LD>& lin_scale);
// 1 + sum |linear inputs| per element, from tangent / coefficient vectors (added up over all given)
std::vector<LD> ref_lin_scale_t(const Spec& s, const VecL& tangent);
std::vector<LD> ref_lin_scale_c(const Spec& s, const VecL& coeffs);
std::vector<LD> scale_add(const std::vector<LD>& a, const std::vector<LD>& b);   // a+b-1 (keeps a single leading 1)
std::vector<LD> scale_mul(const std::vector<LD>& a, const std::vector<LD>& b);

}  // namespace vf
