// vf_dual_manif.h -- makes manif usable over vf::Dual<N> exactly the way manif/ceres/constants.h does for ceres::Jet
// (must be included before manif/manif.h)
#pragma once
#include "vf_dual.h"
#include <manif/constants.h>
#include <manif/impl/traits.h>
namespace manif {
template <int N> struct Constants<vf::Dual<N>> {
  static const vf::Dual<N> eps;
  static const vf::Dual<N> eps_sqrt;
  static const vf::Dual<N> to_rad;
  static const vf::Dual<N> to_deg;
};
template <int N> const vf::Dual<N> Constants<vf::Dual<N>>::eps = vf::Dual<N>(Constants<double>::eps);
template <int N> const vf::Dual<N> Constants<vf::Dual<N>>::eps_sqrt = vf::Dual<N>(Constants<double>::eps_sqrt);
template <int N> const vf::Dual<N> Constants<vf::Dual<N>>::to_rad = vf::Dual<N>(Constants<double>::to_rad);
template <int N> const vf::Dual<N> Constants<vf::Dual<N>>::to_deg = vf::Dual<N>(Constants<double>::to_deg);
namespace internal {
template <int N> struct is_ad<vf::Dual<N>> : std::integral_constant<bool, true> {};
}
}  // namespace manif
