// vf_case.h -- flat, serialisable test cases and outcomes shared by the
// generators (rapidcheck / libFuzzer decoders), the property checks and replay.
#pragma once
#include <cstdint>
#include <map>
#include <set>
#include <string>
#include <utility>
#include <vector>

#include "vf_ref.h"

namespace vf {

struct Case {
  std::vector<int64_t> ints;
  std::vector<double> reals;
};

// what a property wants generated -------------------------------------------------
enum TanProfile {
  TP_FULL = 0,   // rotation magnitude over every stratum incl. beyond pi; linear parts 0..1e6
  TP_INJ,        // rotation magnitude < pi - 1e-6 (inside the injectivity radius)
  TP_SMALL,      // |t| <= 0.5 (perturbations)
  TP_MODERATE,   // rotation strata up to 3, linear parts up to 1e3
  TP_VEL,        // norm <= 10
};
enum ElemProfile {
  EP_ALL = 0,    // exp of TP_FULL tangents, raw coefficients in both hemispheres, near-pi, near-2pi
  EP_MODERATE,   // translations <= 1e3
  EP_WIDE,       // coordinates 1e-8 .. 1e9
};
enum ScalarKind {
  SK_UNIT = 0,   // [0,1] incl. end points, dense
  SK_ANYT,       // interpolation parameter incl. outside [0,1], NaN
  SK_EPS,        // log-uniform 1e-12 .. 1e-1
  SK_SIGNED_MAG, // +-1e-8..1e6 or 0
  SK_ANGLE,      // angles over +-20 pi with special values
  SK_LOGS,       // exponent s in [-4,-1] u [1,4] (as real)
};
struct IntRange { int64_t lo, hi; };

struct Shape {
  int n_elems = 0;
  int n_tangents = 0;
  int n_points = 0;
  std::vector<ScalarKind> scalars;
  std::vector<IntRange> ints;
  // op sequences: length in [seq_min, seq_max]; each step appends one opcode
  // int in [0,n_ops) and one tangent (profile seq_tp)
  int seq_min = 0, seq_max = 0, n_ops = 0;
  TanProfile tp = TP_FULL;
  TanProfile seq_tp = TP_MODERATE;
  ElemProfile ep = EP_ALL;
  bool is_float = false;
  // layout of Case::reals: elems | tangents | points | scalars | seq tangents
  // layout of Case::ints : ints | seq opcodes
};

struct Outcome {
  enum St { PASS = 0, FAIL = 1, INCONCLUSIVE = 2 } st = PASS;
  bool nontrivial = false;
  std::string sub, msg;
  double err = 0, tol = 0;
  std::vector<std::string> labels;
  std::map<std::string, double> margins;   // sub-check -> max err/tol seen in this case
  std::vector<std::string> known_hit;      // known findings whose region contains a sub-check of this case
  int confirmed_mp = 0;
};

struct RunCtx {
  std::set<std::string> known;   // ids of findings with status "known" (regions are excluded)
  bool thorough = false;
  bool fuzz = false;     // running under libFuzzer: keep single executions short
};

// accumulates sub-check results of one case
struct Chk {
  Outcome o;
  const RunCtx* ctx = nullptr;
  explicit Chk(const RunCtx& c) : ctx(&c) {}
  void label(const std::string& l) { o.labels.push_back(l); }
  // returns true if the sub-check passed
  bool expect(const std::string& sub, double err, double tol, const std::string& msg = "") {
    double ratio = (tol > 0) ? err / tol : (err > 0 ? 1e300 : 0);
    if (!(err == err)) ratio = 1e300;  // NaN
    auto it = o.margins.find(sub);
    if (it == o.margins.end() || it->second < ratio) o.margins[sub] = ratio;
    if (!(err <= tol)) {
      if (o.st != Outcome::FAIL) { o.st = Outcome::FAIL; o.sub = sub; o.err = err; o.tol = tol; o.msg = msg; }
      return false;
    }
    return true;
  }
  bool require(const std::string& sub, bool cond, const std::string& msg = "") {
    return expect(sub, cond ? 0.0 : 1.0, 0.5, msg);
  }
  // a bound that does not depend on the reference oracle (never triggers 50-digit confirmation)
  bool bound(const std::string& sub, double val, double limit, const std::string& msg = "") {
    nonoracle.insert(sub);
    return expect(sub, val, limit, msg);
  }
  std::set<std::string> nonoracle;
  // should this case be re-evaluated with the 50-digit oracle?
  bool suspicious(double thr) const {
    if (o.st == Outcome::FAIL) return true;
    for (auto& m : o.margins) if (m.second > thr && !nonoracle.count(m.first)) return true;
    return false;
  }
  void inconclusive(const std::string& why) {
    if (o.st == Outcome::PASS) { o.st = Outcome::INCONCLUSIVE; o.msg = why; }
  }
  // true if finding `id` is listed as known: the caller then skips (or loosens) the sub-check
  bool known(const std::string& id) {
    if (ctx->known.count(id)) { o.known_hit.push_back(id); return true; }
    return false;
  }
};

// serialisation (JSON, reals as hex floats + decimal for humans)
std::string case_to_json(const std::string& property, const std::string& config, const Case& c,
                         const Outcome* o = nullptr);
bool case_from_json(const std::string& text, std::string& property, std::string& config, Case& c);
uint64_t case_hash(const Case& c);

}  // namespace vf

// ---- what every property translation unit provides --------------------------------
namespace vfp {
const char* property_id();
const char* config_name();
const char* nontrivial_rule();
vf::Spec spec();
vf::Shape shape();
vf::Outcome run_case(const vf::Case& c, const vf::RunCtx& ctx);
}  // namespace vfp
